(* Kernel/StopSimStep.v -- C03, part 9: process bodies, callbacks and step() keep the simulation relation, for parametric
   programs.  [res_sim]: what a callback / a step gives on both sides is related unless the a-side answers the explicit
   internal-error result RBroken (the two sides run Condition._build_value with different recursion fuel -- the fuel is the
   condition's id -- so "enough fuel on the a-side" is the hypothesis, and then the b-side, whose ids are larger, has enough). *)
From Coq Require Import ZArith QArith List Bool Lia.
From ONL Require Import Kernel.Model Kernel.Keys Kernel.Inv Kernel.Order Kernel.Deliver Kernel.StopFrame Kernel.StopInv Kernel.StopRen
  Kernel.StopSim Kernel.StopSimCalls.
Import ListNotations.
Local Open Scope nat_scope.

Lemma result_eq_broken (r : result) : r = RBroken \/ r <> RBroken.
Proof. destruct r; auto; right; discriminate. Qed.

(* ---- reading a bisimulation proof ---- *)

Lemma fbis_inv pr f n fr fr' : fbis pr f n fr fr' ->
  match fr with
  | FYield v a => exists a', fr' = FYield (ren_val f v) a' /\ vdom n v = true /\ pbis pr f n a a'
  | FRet v => fr' = FRet (ren_val f v) /\ vdom n v = true
  | FRaise x => fr' = FRaise (ren_exn f x) /\ xdom n x = true
  | FCall c k => exists k', fr' = FCall (ren_call f c) k' /\ cdom n c = true /\
                   (forall f' n', agree n f f' -> n <= n' -> inj f' -> forall o, odom n' o = true ->
                                  fbis pr f' n' (k o) (k' (ren_outcome f' o)))
  end.
Proof. intros H. destruct H; eauto. Qed.

Definition fres_sim pr f n (r r' : fres (St pr)) : Prop :=
  match r, r' with
  | FrYield v st, FrYield v' st' => vdom n v = true /\ v' = ren_val f v /\ pbis pr f n st st'
  | FrRet v, FrRet v' => vdom n v = true /\ v' = ren_val f v
  | FrRaise x, FrRaise x' => xdom n x = true /\ x' = ren_exn f x
  | _, _ => False
  end.

Lemma do_call_len codes c s : length (events s) <= length (events (fst (do_call codes c s))).
Proof. apply sfr_length, sfr_do_call. Qed.

(* ---- the code of a process between two yields ---- *)

Lemma simn_run_frag codes pr f g : parametric_codes codes ->
  forall (fr fr' : frag (St pr)) a b, simn f g a b -> fbis pr f (length (events a)) fr fr' ->
    simn f g (fst (run_frag codes fr a)) (fst (run_frag codes fr' b)) /\
    fres_sim pr f (length (events (fst (run_frag codes fr a)))) (snd (run_frag codes fr a)) (snd (run_frag codes fr' b)) /\
    length (events a) <= length (events (fst (run_frag codes fr a))).
Proof.
  intros PC fr. induction fr as [v st|v|x|c k IH]; intros fr' a b S B; apply fbis_inv in B.
  - destruct B as (st' & -> & V & P). cbn [run_frag fst snd fres_sim]. auto.
  - destruct B as (-> & V). cbn [run_frag fst snd fres_sim]. auto.
  - destruct B as (-> & X). cbn [run_frag fst snd fres_sim]. auto.
  - destruct B as (k' & -> & C & K). cbn [run_frag].
    pose proof (simn_do_call codes f g a b c PC S C) as (S1 & Eo & Do). pose proof (do_call_len codes c a) as L1.
    destruct (do_call codes c a) as [a1 o]. destruct (do_call codes (ren_call f c) b) as [b1 o']. cbn [fst snd] in *. subst o'.
    assert (B1 : fbis pr f (length (events a1)) (k o) (k' (ren_outcome f o))).
    { apply K; [apply agree_refl|exact L1|apply smono_inj, (simn_smono _ _ _ _ S)|exact Do]. }
    destruct (IH o _ _ _ S1 B1) as (S2 & R2 & L2). split; [exact S2|]. split; [exact R2|lia].
Qed.

(* ---- Process._resume ---- *)

Lemma simn_proc_rel f g a b p pr : simn f g a b -> get_proc p a = Some pr ->
  exists pr', get_proc p b = Some pr' /\ proc_rel f (length (events a)) pr pr'.
Proof. intros [S _] H. exact (sim_get_proc f g a b S p pr H). Qed.

Lemma simn_proc_none f g a b p : simn f g a b -> get_proc p a = None -> get_proc p b = None.
Proof. intros [S _] H. exact (sim_get_proc_none f g a b S p H). Qed.

Lemma simn_set_target f g a b p t :
  simn f g a b -> (forall e, t = Some e -> e < length (events a)) ->
  simn f g (upd_proc p (proc_set_target t) a) (upd_proc p (proc_set_target (option_map f t)) b).
Proof.
  intros S Lt. apply simn_upd_proc; [exact S|].
  intros pr pr' (code & st & st' & pe & tg & -> & -> & Hp & Ht & B).
  exists code, st, st', pe, t. cbn [proc_set_target pcode pst pev ptarget]. auto.
Qed.

Lemma simn_proc_finish f g a b p pr pr' o :
  simn f g a b -> proc_rel f (length (events a)) pr pr' -> odom (length (events a)) o = true ->
  simn f g (proc_finish p pr o a) (proc_finish p pr' (ren_outcome f o) b).
Proof.
  intros S (code & st & st' & pe & tg & -> & -> & Hp & Ht & B) O. unfold proc_finish. cbn [pev].
  apply simn_set_active. apply (simn_set_target f g _ _ p None); [|discriminate].
  apply simn_trigger; assumption.
Qed.

Lemma simn_proc_wait f g a b p e :
  simn f g a b -> e < length (events a) -> simn f g (proc_wait p e a) (proc_wait p (f e) b).
Proof.
  intros S L. unfold proc_wait. apply simn_set_active.
  apply (simn_set_target f g _ _ p (Some e)); [|intros e0 E; injection E as <-; rewrite len_add_callback; exact L].
  apply (simn_add_callback f g a b e (CbResume p)); [exact S|reflexivity].
Qed.

Lemma res_sim_same f g a b r : simn f g a b -> rdom (length (events a)) r = true -> res_sim f g (a, r) (b, ren_result f r).
Proof. intros S D _. cbn [fst snd]. auto. Qed.

Lemma res_sim_broken f g a rb : res_sim f g (a, RBroken) rb.
Proof. intros X. destruct (X eq_refl). Qed.

Lemma simn_resume_loop codes f g : parametric_codes codes ->
  forall fuel p e a b, simn f g a b -> e < length (events a) ->
    res_sim f g (resume_loop fuel codes p e a) (resume_loop fuel codes p (f e) b).
Proof.
  intros PC. induction fuel as [|fu IH]; intros p e a b S Le; cbn [resume_loop].
  { apply (res_sim_same f g a b RFuel S eq_refl). }
  rewrite (simn_get _ _ _ _ _ S). destruct (get_event e a) as [ev|] eqn:He; cbn [option_map]; [|apply res_sim_broken].
  destruct (get_proc p a) as [pr|] eqn:Hp.
  2:{ rewrite (simn_proc_none _ _ _ _ _ S Hp). apply res_sim_broken. }
  destruct (simn_proc_rel _ _ _ _ _ _ S Hp) as (pr' & Hp' & PR). rewrite Hp'.
  cbn [ren_ev out]. destruct (out ev) as [o|] eqn:Oe; cbn [option_map]; [|apply res_sim_broken].
  pose proof (simn_evdom _ _ _ _ _ _ S He) as De.
  assert (Do : odom (length (events a)) o = true) by (apply evdom_parts in De; destruct De as (_ & B & _); exact (B _ Oe)).
  set (a1 := match o with Fail _ => upd_event e ev_set_defused a | Ok _ => a end).
  set (b1 := match ren_outcome f o with Fail _ => upd_event (f e) ev_set_defused b | Ok _ => b end).
  assert (S1 : simn f g a1 b1).
  { subst a1 b1. destruct o; cbn [ren_outcome]; [exact S|]. apply simn_upd_event; [exact S|]. intros ev0 _ D0. apply upd_set_defused, D0. }
  assert (La1 : length (events a1) = length (events a)) by (subst a1; destruct o; [reflexivity|apply len_upd_event]).
  destruct PR as (code & st & st' & pe & tg & -> & -> & Hpe & Htg & B). cbn [pcode pst].
  assert (Bf : fbis code f (length (events a1)) (resume code st o) (resume code st' (ren_outcome f o))).
  { rewrite La1. apply pbis_resume; [exact B|apply smono_inj, (simn_smono _ _ _ _ S)|exact Do]. }
  destruct (simn_run_frag codes code f g PC _ _ _ _ S1 Bf) as (S2 & R2 & L2).
  destruct (run_frag codes (resume code st o) a1) as [a2 r]. destruct (run_frag codes (resume code st' (ren_outcome f o)) b1) as [b2 r'].
  cbn [fst snd] in S2, R2, L2.
  assert (Lpe : pe < length (events a2)) by lia.
  assert (Ltg : forall t, tg = Some t -> t < length (events a2)) by (intros t E; specialize (Htg _ E); lia).
  destruct r as [v st2|v|x]; destruct r' as [v' st2'|v'|x']; cbn [fres_sim] in R2; try contradiction.
  - destruct R2 as (Dv & -> & B2).
    set (prx := proc_set_st (mkProc code st pe tg) st2). set (prx' := proc_set_st (mkProc code st' (f pe) (option_map f tg)) st2').
    assert (S3 : simn f g (put_proc p prx a2) (put_proc p prx' b2)).
    { unfold put_proc. apply simn_upd_proc; [exact S2|]. intros _ _ _.
      exists code, st2, st2', pe, tg. unfold prx, prx', proc_set_st. cbn [pcode pev ptarget]. auto. }
    destruct v; cbn [ren_val];
      try (apply (res_sim_same f g _ _ (RRaise (kexn ERuntime M_invalid_yield)) S3 eq_refl)).
    cbn [vdom] in Dv. apply ltb_true_lt in Dv.
    rewrite (simn_get _ _ _ _ _ S3). destruct (get_event e0 (put_proc p prx a2)) as [ev'|]; cbn [option_map].
    2:{ apply (res_sim_same f g _ _ (RRaise (kexn ERuntime M_invalid_yield)) S3 eq_refl). }
    unfold is_processed. cbn [ren_ev cbs]. destruct (cbs ev'); cbn [option_map].
    + intros _. cbn [fst snd]. split; [apply simn_proc_wait; [exact S3|exact Dv]|]. split; reflexivity.
    + apply IH; [exact S3|exact Dv].
  - destruct R2 as (Dv & ->). intros _. cbn [fst snd]. split; [|split; reflexivity].
    apply (simn_proc_finish f g a2 b2 p _ _ (Ok v)); [exact S2| |exact Dv].
    exists code, st, st', pe, tg. split; [reflexivity|]. split; [reflexivity|]. split; [exact Lpe|]. split; [exact Ltg|].
    eapply pbis_mono; [exact B|apply agree_refl|lia].
  - destruct R2 as (Dx & ->). intros _. cbn [fst snd]. split; [|split; reflexivity].
    apply (simn_proc_finish f g a2 b2 p _ _ (Fail x)); [exact S2| |exact Dx].
    exists code, st, st', pe, tg. split; [reflexivity|]. split; [reflexivity|]. split; [exact Lpe|]. split; [exact Ltg|].
    eapply pbis_mono; [exact B|apply agree_refl|lia].
Qed.

Lemma simn_resume_proc codes f g fuel p e a b : parametric_codes codes ->
  simn f g a b -> e < length (events a) -> res_sim f g (resume_proc fuel codes p e a) (resume_proc fuel codes p (f e) b).
Proof. intros PC S L. unfold resume_proc. apply simn_resume_loop; [exact PC|apply simn_set_active, S|exact L]. Qed.

(* ---- Interruption._interrupt ---- *)

Lemma simn_do_interruption codes f g fuel i a b : parametric_codes codes ->
  simn f g a b -> i < length (events a) -> res_sim f g (do_interruption fuel codes i a) (do_interruption fuel codes (f i) b).
Proof.
  intros PC S Li. unfold do_interruption. rewrite (simn_get _ _ _ _ _ S).
  destruct (get_event i a) as [iev|]; cbn [option_map]; [|apply res_sim_broken].
  cbn [ren_ev kind]. destruct (kind iev); cbn [ren_kind]; try apply res_sim_broken.
  destruct (get_proc p a) as [pr|] eqn:Hp.
  2:{ rewrite (simn_proc_none _ _ _ _ _ S Hp). apply res_sim_broken. }
  destruct (simn_proc_rel _ _ _ _ _ _ S Hp) as (pr' & Hp' & PR). rewrite Hp'.
  destruct PR as (code & st & st' & pe & tg & -> & -> & Hpe & Htg & B). cbn [pev ptarget].
  rewrite (simn_get _ _ _ _ _ S). destruct (get_event pe a) as [pev0|]; cbn [option_map]; [|apply res_sim_broken].
  unfold is_triggered. cbn [ren_ev out]. destruct (out pev0); cbn [option_map].
  { apply (res_sim_same f g a b ROk S eq_refl). }
  destruct tg as [t|]; cbn [option_map]; [|apply res_sim_broken].
  rewrite (simn_get _ _ _ _ _ S). destruct (get_event t a) as [tev|] eqn:Ht; cbn [option_map]; [|apply res_sim_broken].
  cbn [ren_ev cbs]. destruct (cbs tev) as [l|] eqn:Ct; cbn [option_map].
  2:{ apply (res_sim_same f g a b (RRaise (kexn EAttribute M_target_processed)) S eq_refl). }
  change (mem_cb (CbResume p) (map (ren_cb f) l)) with (mem_cb (ren_cb f (CbResume p)) (map (ren_cb f) l)).
  rewrite (mem_cb_ren _ _ _ (simn_smono _ _ _ _ S)).
  destruct (mem_cb (CbResume p) l).
  2:{ apply (res_sim_same f g a b (RRaise (kexn EValue M_not_in_list)) S eq_refl). }
  change (remove_first (CbResume p) (map (ren_cb f) l)) with (remove_first (ren_cb f (CbResume p)) (map (ren_cb f) l)).
  rewrite (remove_first_ren _ _ _ (simn_smono _ _ _ _ S)).
  apply simn_resume_proc; [exact PC| |rewrite len_upd_event; exact Li].
  apply simn_upd_event; [exact S|]. intros ev H D. rewrite Ht in H. injection H as <-.
  apply (upd_set_cbs f _ (Some (remove_first (CbResume p) l))); [|exact D].
  intros l0 E; injection E as <-. apply forallb_remove_first. apply evdom_parts in D. apply D, Ct.
Qed.

(* ---- the callbacks ---- *)

Lemma simn_stop_cb f g a b e : simn f g a b -> res_sim f g (stop_cb e a) (stop_cb (f e) b).
Proof.
  intros S. unfold stop_cb. rewrite (simn_get _ _ _ _ _ S). destruct (get_event e a) as [ev|] eqn:H; cbn [option_map]; [|apply res_sim_broken].
  pose proof (simn_evdom _ _ _ _ _ _ S H) as D. apply evdom_parts in D. destruct D as (_ & B & _).
  cbn [ren_ev out]. destruct (out ev) as [[v|x]|] eqn:O; cbn [option_map ren_outcome]; [| |apply res_sim_broken].
  - apply (res_sim_same f g a b (RStop v) S). exact (B _ eq_refl).
  - apply (res_sim_same f g a b (RRaise x) S). exact (B _ eq_refl).
Qed.

Lemma simn_probe_cb f g a b k e : simn f g a b -> e < length (events a) -> simn f g (probe_cb k e a) (probe_cb k (f e) b).
Proof.
  intros S L. unfold probe_cb. rewrite (simn_get _ _ _ _ _ S), (proj2 S).
  assert (E : match option_map (ren_ev f) (get_event e a) with Some ev => out ev | None => None end =
              option_map (ren_outcome f) (match get_event e a with Some ev => out ev | None => None end))
    by (destruct (get_event e a); reflexivity).
  rewrite E. apply (simn_add_obs f g a b S (OProbe k e (now a) (match get_event e a with Some ev => out ev | None => None end))).
  cbn [obdom]. apply Nat.ltb_lt in L. rewrite L. cbn [andb].
  destruct (get_event e a) as [ev|] eqn:H; [|reflexivity]. destruct (out ev) as [o|] eqn:O; [|reflexivity].
  pose proof (simn_evdom _ _ _ _ _ _ S H) as D. apply evdom_parts in D. apply D, O.
Qed.

Lemma simn_run_cb codes f g fuel e c a b : parametric_codes codes ->
  simn f g a b -> e < length (events a) -> cbdom (length (events a)) c = true ->
  res_sim f g (run_cb fuel codes e c a) (run_cb fuel codes (f e) (ren_cb f c) b).
Proof.
  intros PC S Le Dc. destruct c; cbn [run_cb ren_cb cbdom] in *.
  - apply simn_resume_proc; assumption.
  - intros _. cbn [fst snd]. split; [apply simn_cond_check; [exact S|apply ltb_true_lt, Dc]|]. split; reflexivity.
  - apply simn_cond_build; [exact S|apply ltb_true_lt, Dc].
  - apply simn_do_interruption; [exact PC|exact S|apply ltb_true_lt, Dc].
  - apply simn_stop_cb, S.
  - intros _. cbn [fst snd]. split; [apply simn_probe_cb; assumption|]. split; reflexivity.
Qed.

Lemma run_cb_len fuel codes e c s : length (events s) <= length (events (fst (run_cb fuel codes e c s))).
Proof. apply sfr_length, sfr_run_cb. Qed.

Lemma is_stop_cb_ren f c : is_stop_cb (ren_cb f c) = is_stop_cb c.
Proof. destruct c; reflexivity. Qed.
Lemma is_exit_ren f r : is_exit (ren_result f r) = is_exit r.
Proof. destruct r; reflexivity. Qed.

Lemma forallb_cbdom_mono n n' l : n <= n' -> forallb (cbdom n) l = true -> forallb (cbdom n') l = true.
Proof.
  intros L. induction l as [|x t IH]; cbn [forallb]; [auto|]. rewrite !andb_true_iff. intros [A B].
  split; [eapply cbdom_mono; eassumption|auto].
Qed.

Lemma rdom_mono n n' r : n <= n' -> rdom n r = true -> rdom n' r = true.
Proof. intros L. destruct r; cbn [rdom]; try (intros; reflexivity); [apply vdom_mono, L|apply vsdom_mono, L]. Qed.

Lemma run_callbacks_len fuel codes e l s : length (events s) <= length (events (fst (run_callbacks fuel codes e l s))).
Proof. apply sfr_length, sfr_run_callbacks. Qed.

(* the loop *)
Lemma simn_run_callbacks codes f g fuel e : parametric_codes codes ->
  forall l a b, simn f g a b -> e < length (events a) -> forallb (cbdom (length (events a))) l = true ->
    res_sim f g (run_callbacks fuel codes e l a) (run_callbacks fuel codes (f e) (map (ren_cb f) l) b).
Proof.
  intros PC. induction l as [|c t IH]; intros a b S Le Dl; cbn [run_callbacks map].
  { apply (res_sim_same f g a b ROk S eq_refl). }
  cbn [forallb] in Dl. apply andb_true_iff in Dl. destruct Dl as [Dc Dt].
  pose proof (simn_run_cb codes f g fuel e c a b PC S Le Dc) as R1. pose proof (run_cb_len fuel codes e c a) as L1.
  destruct (run_cb fuel codes e c a) as [a1 r] eqn:Ra. destruct (run_cb fuel codes (f e) (ren_cb f c) b) as [b1 r'] eqn:Rb.
  unfold res_sim in R1. cbn [fst snd] in R1, L1. rewrite is_stop_cb_ren.
  destruct (result_eq_broken r) as [->|Nb].
  { (* the a-side gave the internal-error answer: it ends the loop with it *)
    cbn [is_exit andb]. rewrite andb_false_r. apply res_sim_broken. }
  destruct (R1 Nb) as (S1 & -> & D1).
  assert (Le1 : e < length (events a1)) by lia.
  assert (Dt1 : forallb (cbdom (length (events a1))) t = true) by (apply (forallb_cbdom_mono _ _ _ L1 Dt)).
  rewrite is_exit_ren.
  destruct r; cbn [ren_result]; try contradiction.
  - apply IH; assumption.
  - (* REmpty: not an exit *) cbn [is_exit]. rewrite andb_false_r. apply (res_sim_same f g a1 b1 REmpty S1 eq_refl).
  - destruct (is_stop_cb c); cbn [is_exit andb]; [|apply (res_sim_same f g a1 b1 (RStop v) S1 D1)].
    pose proof (IH _ _ S1 Le1 Dt1) as R2. pose proof (run_callbacks_len fuel codes e t a1) as L2.
    destruct (run_callbacks fuel codes e t a1) as [a2 r2]. destruct (run_callbacks fuel codes (f e) (map (ren_cb f) t) b1) as [b2 r2'].
    unfold res_sim in *. cbn [fst snd] in *. intros Nb2.
    destruct (result_eq_broken r2) as [->|Nb3]; [exfalso; apply Nb2; reflexivity|].
    destruct (R2 Nb3) as (S2 & -> & D2). destruct r2; cbn [ren_result fst snd]; try (split; [exact S2|split; [reflexivity|exact D2]]).
    split; [exact S2|]. split; [reflexivity|]. eapply rdom_mono; [exact L2|exact D1].
  - destruct (is_stop_cb c); cbn [is_exit andb]; [|apply (res_sim_same f g a1 b1 (RRaise x) S1 D1)].
    pose proof (IH _ _ S1 Le1 Dt1) as R2. pose proof (run_callbacks_len fuel codes e t a1) as L2.
    destruct (run_callbacks fuel codes e t a1) as [a2 r2]. destruct (run_callbacks fuel codes (f e) (map (ren_cb f) t) b1) as [b2 r2'].
    unfold res_sim in *. cbn [fst snd] in *. intros Nb2.
    destruct (result_eq_broken r2) as [->|Nb3]; [exfalso; apply Nb2; reflexivity|].
    destruct (R2 Nb3) as (S2 & -> & D2). destruct r2; cbn [ren_result fst snd]; try (split; [exact S2|split; [reflexivity|exact D2]]).
    split; [exact S2|]. split; [reflexivity|]. eapply rdom_mono; [exact L2|exact D1].
  - (* RFuel: not an exit *) cbn [is_exit]. rewrite andb_false_r. apply (res_sim_same f g a1 b1 RFuel S1 eq_refl).
Qed.

(* ------------------------------------------------------------------------------------------------ *)
(* step() *)

Lemma check_failure_ren f g a b e :
  simn f g a b -> check_failure (f e) b = ren_result f (check_failure e a) /\ rdom (length (events a)) (check_failure e a) = true.
Proof.
  intros S. unfold check_failure. rewrite (simn_get _ _ _ _ _ S). destruct (get_event e a) as [ev|] eqn:H; cbn [option_map]; [|auto].
  pose proof (simn_evdom _ _ _ _ _ _ S H) as D. apply evdom_parts in D. destruct D as (_ & B & _).
  cbn [ren_ev out defused]. destruct (out ev) as [[v|x]|] eqn:O; cbn [option_map ren_outcome]; [auto| |auto].
  destruct (defused ev); [auto|]. split; [reflexivity|]. exact (B _ eq_refl).
Qed.

(* the order of keys is the same on both sides *)
Lemma smono_le_iff h i j : smono h -> (h i <= h j <-> i <= j).
Proof.
  intros M. split; intros L.
  - destruct (Nat.le_gt_cases i j) as [X|X]; [exact X|]. pose proof (M _ _ X). lia.
  - destruct (Nat.eq_dec i j) as [->|N]; [lia|]. assert (X : i < j) by lia. pose proof (M _ _ X). lia.
Qed.

Lemma key_le_ren f g x z : smono g -> (key_le (ren_entry f g x) (ren_entry f g z) <-> key_le x z).
Proof.
  intros M. unfold key_le, ren_entry. cbn [e_time e_prio e_eid]. rewrite (smono_le_iff g _ _ M). reflexivity.
Qed.

Definition is_ghost_entry (f g : nat -> nat) (a : state) (y : entry) : Prop :=
  (forall i, i < length (events a) -> f i <> e_ev y) /\ (forall i, i < next_eid a -> g i <> e_eid y).

(* the minimum of b's agenda is a ghost, or the renamed minimum of a's agenda *)
Lemma sim_min f g a b y rest' :
  sim f g a b -> good a -> good b -> pop_min (agenda b) = Some (y, rest') ->
  is_ghost_entry f g a y \/ exists m rest, pop_min (agenda a) = Some (m, rest) /\ y = ren_entry f g m.
Proof.
  intros S Ga Gb P. destruct (pop_min_spec _ _ _ P) as (Hy & _ & Hle).
  destruct (sm_agenda2 _ _ _ _ S _ Hy) as (_ & _ & [(x & Hx & ->)|Gh]); [|left; exact Gh]. right.
  destruct (pop_min (agenda a)) as [[m rest]|] eqn:Pa; [|apply pop_min_none in Pa; rewrite Pa in Hx; destruct Hx].
  exists m, rest. split; [reflexivity|]. destruct (pop_min_spec _ _ _ Pa) as (Hm & _ & Hla).
  destruct (sm_agenda1 _ _ _ _ S _ Hm) as (_ & _ & Hmb).
  pose proof (proj1 (key_le_ren f g _ _ (sm_g _ _ _ _ S)) (Hle _ Hmb)) as K1. pose proof (Hla _ Hx) as K2.
  assert (E : e_eid x = e_eid m).
  { destruct (Nat.eq_dec (e_eid x) (e_eid m)) as [E|N]; [exact E|]. exfalso. apply (key_le_not_lt _ _ K1).
    apply key_le_neq_lt; [exact K2|]. intros Q. apply N. symmetry. exact Q. }
  f_equal. destruct Ga as (A & _). eapply (nodup_eid_eq (agenda a)); [apply (ok_nodup _ A)|exact Hx|exact Hm|exact E].
Qed.

Lemma sim_g_lt f g a b i : sim f g a b -> i < next_eid a -> g i < next_eid b.
Proof. intros S L. pose proof (sm_gfut _ _ _ _ S 0) as E. rewrite !Nat.add_0_r in E. pose proof (sm_g _ _ _ _ S _ _ L). lia. Qed.

(* replacing both agendas *)
Lemma sim_set_agenda f g a b ra rb :
  sim f g a b ->
  (forall x, In x ra -> In x (agenda a) /\ In (ren_entry f g x) rb) ->
  (forall y, In y rb -> In y (agenda b) /\ ((exists x, y = ren_entry f g x /\ In x (agenda a)) -> exists x, y = ren_entry f g x /\ In x ra)) ->
  sim f g (set_agenda ra a) (set_agenda rb b).
Proof.
  intros S H1 H2. destruct S as [F G Ff Gf Ac Ev Gh A1 A2 Pr Gl Ob].
  constructor; cbn [set_agenda events agenda next_eid active procs glob obs]; try assumption.
  - intros x Hx. destruct (H1 _ Hx) as [Ha Hb]. destruct (A1 _ Ha) as (X1 & X2 & _). auto.
  - intros y Hy. destruct (H2 _ Hy) as [Hb K]. destruct (A2 _ Hb) as (Y1 & Y2 & Y3). split; [exact Y1|]. split; [exact Y2|].
    destruct Y3 as [(x & Hx & ->)|Gh']; [|right; exact Gh']. left.
    destruct (K (ex_intro _ x (conj eq_refl Hx))) as (x' & E & Hx'). exists x'. auto.
Qed.

Lemma ren_entry_inj f g x z : smono f -> smono g -> ren_entry f g x = ren_entry f g z -> x = z.
Proof.
  intros F G E. destruct x as [t p i e], z as [t' p' i' e']. unfold ren_entry in E. cbn in E. injection E as -> -> E1 E2.
  apply (smono_inj _ G) in E1. apply (smono_inj _ F) in E2. now subst.
Qed.

(* both sides pop corresponding entries *)
Lemma sim_pop_real f g a b m rest rest' :
  sim f g a b -> good a -> good b ->
  pop_min (agenda a) = Some (m, rest) -> pop_min (agenda b) = Some (ren_entry f g m, rest') ->
  simn f g (pop_state m rest a) (pop_state (ren_entry f g m) rest' b).
Proof.
  intros S Ga Gb Pa Pb.
  destruct (pop_min_spec _ _ _ Pa) as (Hm & Er & _). destruct (pop_min_spec _ _ _ Pb) as (Hm' & Er' & _).
  pose proof Ga as (Aa & _). pose proof Gb as (Ab & _).
  destruct (sm_agenda1 _ _ _ _ S _ Hm) as (Lm & _ & _).
  split; [|reflexivity]. unfold pop_state.
  change (OStep (e_ev (ren_entry f g m)) (e_time (ren_entry f g m))) with (ren_obs f (OStep (e_ev m) (e_time m))).
  apply sim_add_obs; [|cbn [obdom set_agenda set_now events]; apply Nat.ltb_lt, Lm].
  apply sim_set_agenda; [apply sim_set_now, S| |].
  - intros x Hx. cbn [set_now agenda]. subst rest. pose proof (remove_eid_subset _ _ _ Hx) as Hxa.
    split; [exact Hxa|]. subst rest'. destruct (sm_agenda1 _ _ _ _ S _ Hxa) as (_ & _ & Hxb).
    apply remove_eid_keeps; [exact Hxb|]. cbn [ren_entry e_eid]. intros E. apply (smono_inj _ (sm_g _ _ _ _ S)) in E.
    exact (remove_eid_not_in _ _ (ok_nodup _ Aa) _ Hx E).
  - intros y Hy. cbn [set_now agenda]. subst rest'. pose proof (remove_eid_subset _ _ _ Hy) as Hyb. split; [exact Hyb|].
    intros (x & -> & Hx). exists x. split; [reflexivity|]. subst rest. apply remove_eid_keeps; [exact Hx|].
    intros E. apply (remove_eid_not_in _ _ (ok_nodup _ Ab) _ Hy). cbn [ren_entry e_eid]. now rewrite E.
Qed.

Lemma sim_set_now_b f g a b t : sim f g a b -> sim f g a (set_now t b).
Proof. intros [F G Ff Gf Ac Ev Gh A1 A2 Pr Gl Ob]. constructor; assumption. Qed.

Lemma sim_set_agenda_b f g a b rb :
  sim f g a b -> (forall x, In x (agenda a) -> In (ren_entry f g x) rb) -> (forall y, In y rb -> In y (agenda b)) ->
  sim f g a (set_agenda rb b).
Proof.
  intros [F G Ff Gf Ac Ev Gh A1 A2 Pr Gl Ob] H1 H2.
  constructor; cbn [set_agenda events agenda next_eid active procs glob obs]; try assumption.
  - intros x Hx. destruct (A1 _ Hx) as (X1 & X2 & _). auto.
  - intros y Hy. apply A2, H2, Hy.
Qed.

(* b pops a ghost entry, a stands still *)
Lemma sim_pop_ghost f g a b y rest' :
  sim f g a b -> good b -> pop_min (agenda b) = Some (y, rest') -> is_ghost_entry f g a y ->
  sim f g a (pop_state y rest' b).
Proof.
  intros S Gb Pb [Gy _]. destruct (pop_min_spec _ _ _ Pb) as (Hy & Er' & _). pose proof Gb as (Ab & _).
  unfold pop_state. apply sim_add_obs_ghost.
  apply sim_set_agenda_b; [apply (sim_set_now_b f g a b), S| |].
  - intros x Hx. cbn [set_now agenda]. subst rest'. destruct (sm_agenda1 _ _ _ _ S _ Hx) as (Lx & _ & Hxb).
    apply remove_eid_keeps; [exact Hxb|]. intros Eq.
    assert (ren_entry f g x = y) by (eapply (nodup_eid_eq (agenda b)); [apply (ok_nodup _ Ab)|exact Hxb|exact Hy|exact Eq]).
    subst y. exact (Gy _ Lx eq_refl).
  - intros y0 Hy0. cbn [set_now agenda] in *. subst rest'. eapply remove_eid_subset, Hy0.
Qed.

(* an inert event may lose its (empty) callback list *)
Lemma sim_upd_ghost f g a b j h :
  sim f g a b -> (forall i, i < length (events a) -> f i <> j) -> (forall ev, inert ev -> inert (h ev)) ->
  sim f g a (upd_event j h b).
Proof.
  intros S N H. destruct S as [F G Ff Gf Ac Ev Gh A1 A2 Pr Gl Ob].
  constructor; cbn [upd_event set_events events agenda next_eid active procs glob obs]; rewrite ?upd_nth_length; try assumption.
  - intros i ev Hi. destruct (Ev _ _ Hi) as [D B]. split; [exact D|]. rewrite nth_error_upd_nth.
    destruct (Nat.eqb (f i) j) eqn:E; [|exact B]. apply Nat.eqb_eq in E. exfalso. apply (N i); [|exact E].
    apply nth_error_Some. congruence.
  - intros k ev'. rewrite nth_error_upd_nth. destruct (Nat.eqb k j) eqn:E.
    + apply Nat.eqb_eq in E. subst k. destruct (nth_error (events b) j) as [ev0|] eqn:E0; cbn; [|discriminate].
      intros X Nk; injection X as <-. apply H. exact (Gh _ _ E0 Nk).
    + apply Gh.
Qed.

(* a step in which both sides pop corresponding entries *)
Lemma sim_step_real codes f g fuel a b m rest rest' : parametric_codes codes ->
  sim f g a b -> good a -> good b ->
  pop_min (agenda a) = Some (m, rest) -> pop_min (agenda b) = Some (ren_entry f g m, rest') ->
  res_sim f g (step fuel codes a) (step fuel codes b).
Proof.
  intros PC S Ga Gb Pa Pb. pose proof (sim_pop_real _ _ _ _ _ _ _ S Ga Gb Pa Pb) as S1.
  destruct (pop_min_spec _ _ _ Pa) as (Hm & _ & _). destruct (sm_agenda1 _ _ _ _ S _ Hm) as (Lm & _ & _).
  unfold step. rewrite Pa, Pb. cbn [ren_entry e_ev]. rewrite (simn_get _ _ _ _ _ S1).
  destruct (get_event (e_ev m) (pop_state m rest a)) as [ev|] eqn:He; cbn [option_map]; [|apply res_sim_broken].
  pose proof (simn_evdom _ _ _ _ _ _ S1 He) as De.
  cbn [ren_ev cbs]. destruct (cbs ev) as [l|] eqn:Ce; cbn [option_map].
  2:{ apply (res_sim_same f g _ _ (RRaise (kexn EType M_none_not_iterable)) S1 eq_refl). }
  assert (S2 : simn f g (upd_event (e_ev m) (ev_set_cbs None) (pop_state m rest a))
                        (upd_event (f (e_ev m)) (ev_set_cbs None) (pop_state (ren_entry f g m) rest' b))).
  { apply simn_upd_event; [exact S1|]. intros ev0 _ D0. apply (upd_set_cbs f _ None); [discriminate|exact D0]. }
  assert (Dl : forallb (cbdom (length (events (upd_event (e_ev m) (ev_set_cbs None) (pop_state m rest a))))) l = true).
  { rewrite len_upd_event. apply evdom_parts in De. apply De, Ce. }
  assert (Le : e_ev m < length (events (upd_event (e_ev m) (ev_set_cbs None) (pop_state m rest a)))) by (rewrite len_upd_event; exact Lm).
  pose proof (simn_run_callbacks codes f g fuel (e_ev m) PC l _ _ S2 Le Dl) as R.
  destruct (run_callbacks fuel codes (e_ev m) l _) as [a2 r]. destruct (run_callbacks fuel codes (f (e_ev m)) (map (ren_cb f) l) _) as [b2 r'].
  unfold res_sim in *. cbn [fst snd] in *.
  destruct (result_eq_broken r) as [->|Nb]; [intros X; destruct (X eq_refl)|].
  destruct (R Nb) as (S3 & -> & D3). destruct (check_failure_ren f g a2 b2 (e_ev m) S3) as [Ec Dc].
  destruct r; cbn [ren_result fst snd]; intros _; try (split; [exact S3|split; [reflexivity|exact D3]]).
  split; [exact S3|]. split; [exact Ec|exact Dc].
Qed.

(* a step in which b pops a ghost *)
Lemma sim_step_ghost codes f g fuel a b y rest' :
  sim f g a b -> good b -> pop_min (agenda b) = Some (y, rest') -> is_ghost_entry f g a y ->
  sim f g a (fst (step fuel codes b)).
Proof.
  intros S Gb Pb Gy. pose proof (sim_pop_ghost _ _ _ _ _ _ S Gb Pb Gy) as S1.
  destruct (pop_min_spec _ _ _ Pb) as (Hy & _ & _). destruct (sm_agenda2 _ _ _ _ S _ Hy) as (Ly & _ & _).
  unfold step. rewrite Pb. rewrite get_event_pop_state.
  destruct (get_event (e_ev y) b) as [ev|] eqn:He; [|exact S1].
  pose proof (sm_ghosts _ _ _ _ S _ _ He (proj1 Gy)) as (Oi & Ci).
  destruct Ci as [Ci|Ci]; rewrite Ci; [|exact S1].
  cbn [run_callbacks].
  assert (S2 : sim f g a (upd_event (e_ev y) (ev_set_cbs None) (pop_state y rest' b))).
  { apply sim_upd_ghost; [exact S1|exact (proj1 Gy)|]. intros ev0 (O0 & _). split; [exact O0|right; reflexivity]. }
  destruct (check_failure (e_ev y) _); exact S2.
Qed.
