(* Kernel/Keys.v -- the key order of the agenda (time, priority, eid) and the facts about min_entry / pop_min
   used by Kernel/Inv.v and Kernel/Order.v (C01). *)
From Coq Require Import ZArith QArith List Bool Lia Lqa.
From ONL Require Import Kernel.Model.
Import ListNotations.

(* ------------------------------------------------------------------------------------------------ *)
(* the key order *)

Definition key_lt (a b : entry) : Prop :=
  e_time a < e_time b \/
  (e_time a == e_time b /\ ((e_prio a < e_prio b)%nat \/ (e_prio a = e_prio b /\ (e_eid a < e_eid b)%nat))).

Definition key_le (a b : entry) : Prop :=
  e_time a < e_time b \/
  (e_time a == e_time b /\ ((e_prio a < e_prio b)%nat \/ (e_prio a = e_prio b /\ (e_eid a <= e_eid b)%nat))).

Lemma key_ltb_iff a b : key_ltb a b = true <-> key_lt a b.
Proof.
  unfold key_ltb, key_lt.
  destruct (e_time a ?= e_time b) eqn:C.
  - apply Qeq_alt in C. rewrite orb_true_iff, andb_true_iff, !Nat.ltb_lt, Nat.eqb_eq.
    split.
    + intros H. right. split; [exact C|]. tauto.
    + intros [H|[_ H]]; [lra|tauto].
  - apply Qlt_alt in C. split; [intros _; left; exact C|reflexivity].
  - apply Qgt_alt in C. split; [discriminate|]. intros [H|[H _]]; lra.
Qed.

Lemma key_ltb_false a b : key_ltb a b = false <-> key_le b a.
Proof.
  unfold key_ltb, key_le.
  destruct (e_time a ?= e_time b) eqn:C.
  - apply Qeq_alt in C. rewrite orb_false_iff, andb_false_iff, !Nat.ltb_ge, Nat.eqb_neq.
    split.
    + intros [H1 H2]. right. split; [lra|]. lia.
    + intros [H|[_ H]]; [lra|lia].
  - apply Qlt_alt in C. split; [discriminate|]. intros [H|[H _]]; lra.
  - apply Qgt_alt in C. split; [intros _; left; lra|reflexivity].
Qed.

Lemma key_lt_le a b : key_lt a b -> key_le a b.
Proof. unfold key_lt, key_le. intros [H|[H [H'|[H' H'']]]]; [left; exact H| right; split; [exact H|left; exact H'] | right; split; [exact H|right; lia]]. Qed.

Lemma key_le_not_lt a b : key_le a b -> ~ key_lt b a.
Proof.
  unfold key_lt, key_le. intros [H|[H [H'|[H' H'']]]] [K|[K [K'|[K' K'']]]]; try lra; lia.
Qed.

Lemma key_lt_irrefl a : ~ key_lt a a.
Proof. unfold key_lt. intros [H|[_ [H|[_ H]]]]; [lra|lia|lia]. Qed.

Lemma key_lt_asym a b : key_lt a b -> ~ key_lt b a.
Proof. intros H. apply key_le_not_lt, key_lt_le, H. Qed.

Lemma key_le_trans a b c : key_le a b -> key_le b c -> key_le a c.
Proof.
  unfold key_le.
  intros [H|[H [H'|[H' H'']]]] [K|[K [K'|[K' K'']]]];
    solve [ left; lra
          | right; split; [lra|]; solve [left; lia | right; split; lia] ].
Qed.

Lemma key_lt_trans a b c : key_lt a b -> key_lt b c -> key_lt a c.
Proof.
  unfold key_lt.
  intros [H|[H [H'|[H' H'']]]] [K|[K [K'|[K' K'']]]];
    solve [ left; lra
          | right; split; [lra|]; solve [left; lia | right; split; lia] ].
Qed.

(* keys with different insertion ids are strictly ordered *)
Lemma key_le_neq_lt a b : key_le a b -> e_eid a <> e_eid b -> key_lt a b.
Proof.
  unfold key_le, key_lt. intros [H|[H [H'|[H' H'']]]] N;
    [left; exact H | right; split; [exact H|left; exact H'] | right; split; [exact H|right; lia]].
Qed.

(* ------------------------------------------------------------------------------------------------ *)
(* min_entry / remove_eid / pop_min *)

Lemma min_entry_in l m : min_entry l = Some m -> In m l.
Proof.
  revert m. induction l as [|x t IH]; cbn [min_entry]; [discriminate|].
  intros m. destruct (min_entry t) as [m'|] eqn:E.
  - destruct (key_ltb m' x); intros H; injection H as <-; [right; apply IH; reflexivity|left; reflexivity].
  - intros H; injection H as <-. left; reflexivity.
Qed.

Lemma min_entry_le l m : min_entry l = Some m -> forall x, In x l -> key_le m x.
Proof.
  revert m. induction l as [|y t IH]; cbn [min_entry]; [discriminate|].
  intros m. destruct (min_entry t) as [m'|] eqn:E.
  - destruct (key_ltb m' y) eqn:K; intros H; injection H as <-; intros x [<-|Hx].
    + apply key_lt_le, key_ltb_iff, K.
    + apply IH; [reflexivity|exact Hx].
    + right. split; [reflexivity|]. right. split; reflexivity || lia.
    + apply key_ltb_false in K. eapply key_le_trans; [exact K|]. apply IH; [reflexivity|exact Hx].
  - intros H; injection H as <-. intros x [<-|Hx].
    + right. split; [reflexivity|]. right. split; reflexivity || lia.
    + destruct t; [destruct Hx|]. cbn [min_entry] in E. destruct (min_entry t); [destruct (key_ltb e0 e)|]; discriminate.
Qed.

Lemma min_entry_none l : min_entry l = None -> l = [].
Proof.
  destruct l as [|x t]; [reflexivity|]. cbn [min_entry].
  destruct (min_entry t); [destruct (key_ltb e x)|]; discriminate.
Qed.

Lemma remove_eid_subset id l x : In x (remove_eid id l) -> In x l.
Proof.
  induction l as [|y t IH]; cbn [remove_eid]; [tauto|].
  destruct (Nat.eqb (e_eid y) id); [intros H; right; exact H|].
  intros [<-|H]; [left; reflexivity|right; apply IH, H].
Qed.

Lemma remove_eid_keeps id l x : In x l -> e_eid x <> id -> In x (remove_eid id l).
Proof.
  induction l as [|y t IH]; cbn [remove_eid]; [tauto|].
  intros [<-|H] N.
  - destruct (Nat.eqb (e_eid y) id) eqn:E; [apply Nat.eqb_eq in E; contradiction|left; reflexivity].
  - destruct (Nat.eqb (e_eid y) id); [exact H|right; apply IH; assumption].
Qed.

Lemma remove_eid_not_in id l : NoDup (map e_eid l) -> forall x, In x (remove_eid id l) -> e_eid x <> id.
Proof.
  induction l as [|y t IH]; cbn [remove_eid map]; [intros _ x []|].
  intros ND x. inversion ND as [|? ? Hn ND']; subst.
  destruct (Nat.eqb (e_eid y) id) eqn:E.
  - apply Nat.eqb_eq in E. intros Hx Heq. apply Hn. rewrite E, <- Heq. apply in_map, Hx.
  - apply Nat.eqb_neq in E. intros [<-|Hx]; [exact E|apply IH; assumption].
Qed.

Lemma remove_eid_nodup id l : NoDup (map e_eid l) -> NoDup (map e_eid (remove_eid id l)).
Proof.
  induction l as [|y t IH]; cbn [remove_eid map]; [intros H; exact H|].
  intros ND. inversion ND as [|? ? Hn ND']; subst.
  destruct (Nat.eqb (e_eid y) id); [exact ND'|].
  cbn [map]. constructor; [|apply IH, ND'].
  intros Hin. apply Hn. apply in_map_iff in Hin. destruct Hin as (x & Hx & Hin).
  apply in_map_iff. exists x. split; [exact Hx|eapply remove_eid_subset, Hin].
Qed.

Lemma pop_min_spec l m rest :
  pop_min l = Some (m, rest) ->
  In m l /\ rest = remove_eid (e_eid m) l /\ forall x, In x l -> key_le m x.
Proof.
  unfold pop_min. destruct (min_entry l) as [m'|] eqn:E; [|discriminate].
  intros H; injection H as <- <-.
  split; [apply min_entry_in, E|]. split; [reflexivity|]. apply min_entry_le, E.
Qed.

Lemma pop_min_none l : pop_min l = None -> l = [].
Proof. unfold pop_min. destruct (min_entry l) eqn:E; [discriminate|]. intros _. apply min_entry_none, E. Qed.
