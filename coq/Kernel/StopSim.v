(* Kernel/StopSim.v -- C03, part 7: the simulation relation between an execution (state a) and the same execution with inert
   sentinels inserted (state b).

     f, g                 the id maps: event id of a -> event id of b, insertion id of a -> insertion id of b; strictly increasing,
                          and aligned on the ids not yet allocated (f (length (events a) + k) = length (events b) + k): inside a
                          step both sides allocate in lockstep, so one pair of maps serves a whole step; when a ghost is inserted
                          the maps are bumped above the allocated ids ([bump], StopGhost.v)
     ren_ev / ren_entry / ren_obs / ren_cb / ren_kind     renaming of kernel data;  evdom / ... : all ids below n
     sim f g a b          b is a renamed by (f, g), plus inert events (ghosts: pre-triggered, without callbacks) that nothing in
                          b refers to, plus agenda entries for some of them, plus their OStep records
     sim_get              get_event (f i) b = option_map (ren_ev f) (get_event i a)
     sim_upd_event / sim_new_event / sim_schedule / ...   the primitives of the model keep the relation *)
From Coq Require Import ZArith QArith List Bool Lia.
From ONL Require Import Kernel.Model Kernel.Keys Kernel.Deliver Kernel.StopRen.
Import ListNotations.
Local Open Scope nat_scope.

(* ------------------------------------------------------------------------------------------------ *)
(* renaming of kernel data *)

Definition ren_cb (f : nat -> nat) (c : cb) : cb :=
  match c with
  | CbResume p => CbResume p
  | CbCheck c => CbCheck (f c)
  | CbBuild c => CbBuild (f c)
  | CbInterrupt i => CbInterrupt (f i)
  | CbStop => CbStop
  | CbProbe n => CbProbe n
  end.

Definition cbdom (n : nat) (c : cb) : bool :=
  match c with
  | CbCheck c | CbBuild c | CbInterrupt c => Nat.ltb c n
  | _ => true
  end.

Definition ren_kind (f : nat -> nat) (k : ekind) : ekind :=
  match k with KCond all ops count => KCond all (map f ops) count | _ => k end.
Definition kdom (n : nat) (k : ekind) : bool := match k with KCond _ ops _ => esdom n ops | _ => true end.

Definition ren_ev (f : nat -> nat) (ev : event) : event :=
  mkEvent (option_map (map (ren_cb f)) (cbs ev)) (option_map (ren_outcome f) (out ev)) (defused ev) (ren_kind f (kind ev)).

Definition evdom (n : nat) (ev : event) : bool :=
  match cbs ev with Some l => forallb (cbdom n) l | None => true end &&
  match out ev with Some o => odom n o | None => true end && kdom n (kind ev).

Definition ren_entry (f g : nat -> nat) (x : entry) : entry := mkEntry (e_time x) (e_prio x) (g (e_eid x)) (f (e_ev x)).

Definition ren_obs (f : nat -> nat) (o : observation) : observation :=
  match o with
  | OStep e t => OStep (f e) t
  | OProbe k e t oc => OProbe k (f e) t (option_map (ren_outcome f) oc)
  | OLog p t v => OLog p t (ren_val f v)
  end.

Definition obdom (n : nat) (o : observation) : bool :=
  match o with
  | OStep e _ => Nat.ltb e n
  | OProbe _ e _ oc => Nat.ltb e n && match oc with Some x => odom n x | None => true end
  | OLog _ _ v => vdom n v
  end.

(* the traces: b's is a's renamed, with the steps of ghosts in between *)
Inductive obs_rel (f : nat -> nat) (n : nat) : list observation -> list observation -> Prop :=
| obr_nil : obs_rel f n [] []
| obr_both o l l' : obdom n o = true -> obs_rel f n l l' -> obs_rel f n (o :: l) (ren_obs f o :: l')
| obr_ghost e t l l' : obs_rel f n l l' -> obs_rel f n l (OStep e t :: l').

Definition proc_rel (f : nat -> nat) (n : nat) (pr pr' : procrec) : Prop :=
  exists (code : prog) (st st' : St code) (pe : evid) (tg : option evid),
    pr = mkProc code st pe tg /\ pr' = mkProc code st' (f pe) (option_map f tg) /\
    pe < n /\ (forall t, tg = Some t -> t < n) /\ pbis code f n st st'.

Definition inert (ev : event) : Prop :=
  out ev = Some (Ok VNone) /\ (cbs ev = Some [] \/ cbs ev = None).

Definition smono (f : nat -> nat) : Prop := forall i j, i < j -> f i < f j.

Record sim (f g : nat -> nat) (a b : state) : Prop := mkSim {
  sm_f : smono f;
  sm_g : smono g;
  sm_ffut : forall k, f (length (events a) + k) = length (events b) + k;
  sm_gfut : forall k, g (next_eid a + k) = next_eid b + k;
  sm_active : active b = active a;
  sm_events : forall i ev, nth_error (events a) i = Some ev ->
                evdom (length (events a)) ev = true /\ nth_error (events b) (f i) = Some (ren_ev f ev);
  sm_ghosts : forall j ev', nth_error (events b) j = Some ev' -> (forall i, i < length (events a) -> f i <> j) -> inert ev';
  sm_agenda1 : forall x, In x (agenda a) ->
                 e_ev x < length (events a) /\ e_eid x < next_eid a /\ In (ren_entry f g x) (agenda b);
  sm_agenda2 : forall y, In y (agenda b) ->
                 e_ev y < length (events b) /\ e_eid y < next_eid b /\
                 ((exists x, In x (agenda a) /\ y = ren_entry f g x) \/
                  ((forall i, i < length (events a) -> f i <> e_ev y) /\ (forall i, i < next_eid a -> g i <> e_eid y)));
  sm_procs : length (procs b) = length (procs a) /\
             forall p pr, nth_error (procs a) p = Some pr ->
               exists pr', nth_error (procs b) p = Some pr' /\ proc_rel f (length (events a)) pr pr';
  sm_glob : vsdom (length (events a)) (glob a) = true /\ glob b = ren_vals f (glob a);
  sm_obs : obs_rel f (length (events a)) (obs a) (obs b) }.

(* ------------------------------------------------------------------------------------------------ *)
(* monotone maps *)

Lemma smono_inj f : smono f -> inj f.
Proof.
  intros M i j E. destruct (Nat.lt_trichotomy i j) as [L|[L|L]]; [|exact L|].
  - pose proof (M _ _ L). lia.
  - pose proof (M _ _ L). lia.
Qed.

Lemma smono_le f : smono f -> forall i, i <= f i.
Proof. intros M. induction i as [|i IH]; [lia|]. pose proof (M i (S i) ltac:(lia)). lia. Qed.

Lemma smono_lt_iff f i j : smono f -> (f i < f j <-> i < j).
Proof.
  intros M. split; [|apply M]. intros L. destruct (Nat.lt_trichotomy i j) as [X|[X|X]]; [exact X|subst; lia|].
  pose proof (M _ _ X). lia.
Qed.

Lemma smono_eq_iff f i j : smono f -> (f i = f j <-> i = j).
Proof. intros M. split; [apply smono_inj, M|intros ->; reflexivity]. Qed.

Lemma eqb_smono f i j : smono f -> Nat.eqb (f i) (f j) = Nat.eqb i j.
Proof.
  intros M. destruct (Nat.eqb i j) eqn:E.
  - apply Nat.eqb_eq in E. subst. apply Nat.eqb_refl.
  - apply Nat.eqb_neq in E. apply Nat.eqb_neq. intros X. apply E. exact (smono_inj _ M _ _ X).
Qed.

Lemma ltb_smono f i j : smono f -> Nat.ltb (f i) (f j) = Nat.ltb i j.
Proof.
  intros M. destruct (Nat.ltb i j) eqn:E.
  - apply Nat.ltb_lt in E. apply Nat.ltb_lt. apply M, E.
  - apply Nat.ltb_ge in E. apply Nat.ltb_ge. destruct (Nat.eq_dec i j) as [->|N]; [lia|].
    assert (j < i) by lia. pose proof (M _ _ H). lia.
Qed.

(* ------------------------------------------------------------------------------------------------ *)
(* what the relation says about lookups *)

Section Sim.
  Variables (f g : nat -> nat) (a b : state).
  Hypothesis S : sim f g a b.

  Lemma sim_inj : inj f.
  Proof. apply smono_inj, (sm_f _ _ _ _ S). Qed.

  Lemma sim_f_lt i : i < length (events a) -> f i < length (events b).
  Proof.
    intros L. pose proof (sm_ffut _ _ _ _ S 0) as E. rewrite !Nat.add_0_r in E.
    pose proof (sm_f _ _ _ _ S _ _ L). lia.
  Qed.

  Lemma sim_f_ge i : length (events a) <= i -> length (events b) <= f i.
  Proof.
    intros L. pose proof (sm_ffut _ _ _ _ S (i - length (events a))) as E.
    replace (length (events a) + (i - length (events a))) with i in E by lia. lia.
  Qed.

  (* the lookup in b at a renamed id *)
  Lemma sim_get i : get_event (f i) b = option_map (ren_ev f) (get_event i a).
  Proof.
    unfold get_event. destruct (nth_error (events a) i) as [ev|] eqn:H.
    - cbn. apply (sm_events _ _ _ _ S _ _ H).
    - cbn. apply nth_error_None. apply nth_error_None in H. apply sim_f_ge, H.
  Qed.

  Lemma sim_evdom i ev : get_event i a = Some ev -> evdom (length (events a)) ev = true.
  Proof. intros H. apply (sm_events _ _ _ _ S _ _ H). Qed.

  Lemma sim_get_proc p : forall pr, get_proc p a = Some pr ->
    exists pr', get_proc p b = Some pr' /\ proc_rel f (length (events a)) pr pr'.
  Proof. intros pr H. apply (proj2 (sm_procs _ _ _ _ S) _ _ H). Qed.

  Lemma sim_get_proc_none p : get_proc p a = None -> get_proc p b = None.
  Proof.
    unfold get_proc. intros H. apply nth_error_None. apply nth_error_None in H. rewrite (proj1 (sm_procs _ _ _ _ S)). exact H.
  Qed.
End Sim.

(* ------------------------------------------------------------------------------------------------ *)
(* monotonicity in the number of allocated ids, independence from the maps above it *)

Lemma esdom_mono n n' l : n <= n' -> esdom n l = true -> esdom n' l = true.
Proof.
  intros L. unfold esdom. induction l as [|x t IH]; cbn [forallb]; [auto|]. rewrite !andb_true_iff, !Nat.ltb_lt.
  intros [A B]. split; [lia|auto].
Qed.

Lemma cbdom_mono n n' c : n <= n' -> cbdom n c = true -> cbdom n' c = true.
Proof. intros L. destruct c; cbn [cbdom]; try (intros; reflexivity); rewrite !Nat.ltb_lt; lia. Qed.

Lemma evdom_mono n n' ev : n <= n' -> evdom n ev = true -> evdom n' ev = true.
Proof.
  intros L. unfold evdom. rewrite !andb_true_iff. intros [[A B] C]. repeat split.
  - destruct (cbs ev) as [l|]; [|reflexivity]. induction l as [|x t IH]; cbn [forallb] in *; [reflexivity|].
    rewrite andb_true_iff in *. destruct A as [A1 A2]. split; [eapply cbdom_mono; eassumption|auto].
  - destruct (out ev) as [o|]; [|reflexivity]. eapply odom_mono; eassumption.
  - destruct (kind ev); try reflexivity. cbn [kdom] in *. eapply esdom_mono; eassumption.
Qed.

Lemma obdom_mono n n' o : n <= n' -> obdom n o = true -> obdom n' o = true.
Proof.
  intros L. destruct o as [e t|k e t oc|p t v]; cbn [obdom].
  - rewrite !Nat.ltb_lt. lia.
  - rewrite !andb_true_iff, !Nat.ltb_lt. intros [A B]. split; [lia|]. destruct oc; [eapply odom_mono; eassumption|reflexivity].
  - apply vdom_mono, L.
Qed.

Lemma map_agree n f f' l : agree n f f' -> esdom n l = true -> map f l = map f' l.
Proof.
  intros A. unfold esdom. induction l as [|x t IH]; cbn [forallb map]; [reflexivity|]. rewrite andb_true_iff, Nat.ltb_lt.
  intros [H1 H2]. now rewrite (A _ H1), (IH H2).
Qed.

Lemma ren_cb_agree n f f' c : agree n f f' -> cbdom n c = true -> ren_cb f c = ren_cb f' c.
Proof. intros A. destruct c; cbn [cbdom ren_cb]; try reflexivity; rewrite Nat.ltb_lt; intros H; now rewrite (A _ H). Qed.

Lemma ren_ev_agree n f f' ev : agree n f f' -> evdom n ev = true -> ren_ev f ev = ren_ev f' ev.
Proof.
  intros A. unfold evdom, ren_ev. rewrite !andb_true_iff. intros [[H1 H2] H3]. f_equal.
  - destruct (cbs ev) as [l|]; [|reflexivity]. cbn [option_map]. f_equal.
    induction l as [|x t IH]; cbn [forallb map] in *; [reflexivity|]. rewrite andb_true_iff in H1. destruct H1 as [X Y].
    now rewrite (ren_cb_agree _ _ _ _ A X), (IH Y).
  - destruct (out ev) as [o|]; [|reflexivity]. cbn [option_map]. now rewrite (ren_outcome_agree _ _ _ _ A H2).
  - destruct (kind ev); try reflexivity. cbn [kdom ren_kind] in *. now rewrite (map_agree _ _ _ _ A H3).
Qed.

Lemma ren_obs_agree n f f' o : agree n f f' -> obdom n o = true -> ren_obs f o = ren_obs f' o.
Proof.
  intros A. destruct o as [e t|k e t oc|p t v]; cbn [obdom ren_obs].
  - rewrite Nat.ltb_lt. intros H. now rewrite (A _ H).
  - rewrite andb_true_iff, Nat.ltb_lt. intros [H1 H2]. rewrite (A _ H1). f_equal.
    destruct oc as [o|]; [|reflexivity]. cbn [option_map]. now rewrite (ren_outcome_agree _ _ _ _ A H2).
  - intros H. now rewrite (ren_val_agree _ _ _ _ A H).
Qed.

Lemma obs_rel_mono f f' n n' l l' : agree n f f' -> n <= n' -> obs_rel f n l l' -> obs_rel f' n' l l'.
Proof.
  intros A L R. induction R as [|o l l' D _ IH|e t l l' _ IH]; [constructor| |constructor; exact IH].
  rewrite (ren_obs_agree _ _ _ _ A D). constructor; [eapply obdom_mono; eassumption|exact IH].
Qed.

Lemma proc_rel_mono f f' n n' pr pr' : agree n f f' -> n <= n' -> proc_rel f n pr pr' -> proc_rel f' n' pr pr'.
Proof.
  intros A L (code & st & st' & pe & tg & -> & -> & Hp & Ht & B).
  exists code, st, st', pe, tg. split; [reflexivity|]. split.
  - rewrite (A _ Hp). f_equal. destruct tg as [t|]; [|reflexivity]. cbn. now rewrite (A _ (Ht _ eq_refl)).
  - split; [lia|]. split; [intros t E; specialize (Ht _ E); lia|]. eapply pbis_mono; eassumption.
Qed.

(* ------------------------------------------------------------------------------------------------ *)
(* the primitives keep the relation *)

Lemma nth_error_app_last {A} (l : list A) x : nth_error (l ++ [x]) (length l) = Some x.
Proof. rewrite nth_error_app2 by lia. now rewrite Nat.sub_diag. Qed.

Lemma nth_error_app_cases {A} (l : list A) x j y :
  nth_error (l ++ [x]) j = Some y -> (j < length l /\ nth_error l j = Some y) \/ (j = length l /\ y = x).
Proof.
  destruct (Nat.lt_ge_cases j (length l)) as [L|L].
  - rewrite nth_error_app1 by exact L. auto.
  - rewrite nth_error_app2 by exact L. destruct (j - length l) as [|k] eqn:D; cbn.
    + intros H; injection H as <-. right. split; [lia|reflexivity].
    + destruct k; discriminate.
Qed.

(* only a record of a changes that is not an event, an agenda entry or an id counter *)
Lemma sim_same_events f g a b a' b' :
  sim f g a b ->
  events a' = events a -> events b' = events b -> agenda a' = agenda a -> agenda b' = agenda b ->
  next_eid a' = next_eid a -> next_eid b' = next_eid b ->
  active b' = active a' ->
  (length (procs b') = length (procs a') /\
   forall p pr, nth_error (procs a') p = Some pr ->
     exists pr', nth_error (procs b') p = Some pr' /\ proc_rel f (length (events a)) pr pr') ->
  (vsdom (length (events a)) (glob a') = true /\ glob b' = ren_vals f (glob a')) ->
  obs_rel f (length (events a)) (obs a') (obs b') ->
  sim f g a' b'.
Proof.
  intros S Ea Eb Aa Ab Na Nb Ac Pr Gl Ob. destruct S as [F G Ff Gf _ Ev Gh A1 A2 _ _ _].
  constructor; rewrite ?Ea, ?Eb, ?Aa, ?Ab, ?Na, ?Nb; assumption.
Qed.

Lemma sim_set_active f g a b p : sim f g a b -> sim f g (set_active p a) (set_active p b).
Proof.
  intros S. apply (sim_same_events f g a b _ _ S); try reflexivity; [apply (sm_procs _ _ _ _ S)|apply (sm_glob _ _ _ _ S)|apply (sm_obs _ _ _ _ S)].
Qed.

Lemma sim_set_now f g a b t t' : sim f g a b -> sim f g (set_now t a) (set_now t' b).
Proof.
  intros S. apply (sim_same_events f g a b _ _ S); try reflexivity;
    [apply (sm_active _ _ _ _ S)|apply (sm_procs _ _ _ _ S)|apply (sm_glob _ _ _ _ S)|apply (sm_obs _ _ _ _ S)].
Qed.

Lemma sim_add_obs f g a b o : sim f g a b -> obdom (length (events a)) o = true -> sim f g (add_obs o a) (add_obs (ren_obs f o) b).
Proof.
  intros S D. apply (sim_same_events f g a b _ _ S); try reflexivity;
    [apply (sm_active _ _ _ _ S)|apply (sm_procs _ _ _ _ S)|apply (sm_glob _ _ _ _ S)|].
  cbn. constructor; [exact D|apply (sm_obs _ _ _ _ S)].
Qed.

Lemma sim_add_obs_ghost f g a b e t : sim f g a b -> sim f g a (add_obs (OStep e t) b).
Proof.
  intros S. apply (sim_same_events f g a b _ _ S); try reflexivity;
    [apply (sm_active _ _ _ _ S)|apply (sm_procs _ _ _ _ S)|apply (sm_glob _ _ _ _ S)|].
  cbn. constructor. apply (sm_obs _ _ _ _ S).
Qed.

Lemma sim_set_glob f g a b l : sim f g a b -> vsdom (length (events a)) l = true -> sim f g (set_glob l a) (set_glob (ren_vals f l) b).
Proof.
  intros S D. apply (sim_same_events f g a b _ _ S); try reflexivity;
    [apply (sm_active _ _ _ _ S)|apply (sm_procs _ _ _ _ S)|split; [exact D|reflexivity]|apply (sm_obs _ _ _ _ S)].
Qed.

Lemma sim_upd_proc f g a b p h h' :
  sim f g a b ->
  (forall pr pr', proc_rel f (length (events a)) pr pr' -> proc_rel f (length (events a)) (h pr) (h' pr')) ->
  sim f g (upd_proc p h a) (upd_proc p h' b).
Proof.
  intros S H. apply (sim_same_events f g a b _ _ S); try reflexivity;
    [apply (sm_active _ _ _ _ S)| |apply (sm_glob _ _ _ _ S)|apply (sm_obs _ _ _ _ S)].
  destruct (sm_procs _ _ _ _ S) as [L P]. cbn. split; [rewrite !upd_nth_length; exact L|].
  intros q pr. rewrite !nth_error_upd_nth. destruct (Nat.eqb q p).
  - destruct (nth_error (procs a) q) as [pr0|] eqn:E; cbn; [|discriminate]. intros X; injection X as <-.
    destruct (P _ _ E) as (pr0' & E' & R). rewrite E'. cbn. eexists. split; [reflexivity|apply H, R].
  - apply P.
Qed.

Lemma sim_add_proc f g a b pr pr' :
  sim f g a b -> proc_rel f (length (events a)) pr pr' ->
  sim f g (set_procs (procs a ++ [pr]) a) (set_procs (procs b ++ [pr']) b).
Proof.
  intros S R. apply (sim_same_events f g a b _ _ S); try reflexivity;
    [apply (sm_active _ _ _ _ S)| |apply (sm_glob _ _ _ _ S)|apply (sm_obs _ _ _ _ S)].
  destruct (sm_procs _ _ _ _ S) as [L P]. cbn. split; [rewrite !app_length, L; reflexivity|].
  intros q pr0 H. destruct (nth_error_app_cases _ _ _ _ H) as [[Lq Hq]|[-> ->]].
  - destruct (P _ _ Hq) as (pr0' & E' & R0). exists pr0'. split; [|exact R0]. rewrite nth_error_app1; [exact E'|].
    apply nth_error_Some. congruence.
  - exists pr'. split; [|exact R]. rewrite <- L. apply nth_error_app_last.
Qed.

(* one event record changes, on both sides in the same way *)
Lemma sim_upd_event f g a b i h h' :
  sim f g a b ->
  (forall ev, nth_error (events a) i = Some ev -> evdom (length (events a)) ev = true ->
     evdom (length (events a)) (h ev) = true /\ ren_ev f (h ev) = h' (ren_ev f ev)) ->
  sim f g (upd_event i h a) (upd_event (f i) h' b).
Proof.
  intros S H. pose proof (sim_inj _ _ _ _ S) as I. destruct S as [F G Ff Gf Ac Ev Gh A1 A2 Pr Gl Ob].
  constructor; cbn [upd_event set_events events agenda next_eid active procs glob obs]; rewrite ?upd_nth_length; try assumption.
  - intros j ev. rewrite !nth_error_upd_nth. rewrite (eqb_smono _ _ _ F). destruct (Nat.eqb j i) eqn:E.
    + apply Nat.eqb_eq in E. subst j. destruct (nth_error (events a) i) as [ev0|] eqn:E0; cbn; [|discriminate].
      intros X; injection X as <-. destruct (Ev _ _ E0) as [D0 B0]. destruct (H _ eq_refl D0) as [D1 R1].
      split; [exact D1|]. rewrite B0. cbn. now rewrite R1.
    + apply Ev.
  - intros j ev'. rewrite nth_error_upd_nth. destruct (Nat.eqb j (f i)) eqn:E.
    + apply Nat.eqb_eq in E. subst j. destruct (nth_error (events b) (f i)) as [ev0|] eqn:E0; cbn; [|discriminate].
      intros _ N. destruct (Nat.lt_ge_cases i (length (events a))) as [L|L]; [destruct (N _ L eq_refl)|].
      exfalso. assert (Lt : f i < length (events b)) by (apply nth_error_Some; congruence).
      pose proof (Ff (i - length (events a))) as X.
      replace (length (events a) + (i - length (events a))) with i in X by lia. lia.
    + apply Gh.
Qed.

(* a new event on both sides *)
Lemma sim_new_event f g a b ev :
  sim f g a b -> evdom (S (length (events a))) ev = true ->
  sim f g (snd (new_event ev a)) (snd (new_event (ren_ev f ev) b)).
Proof.
  intros S D. destruct S as [F G Ff Gf Ac Ev Gh A1 A2 Pr Gl Ob].
  assert (F0 : f (length (events a)) = length (events b)) by (pose proof (Ff 0) as X; now rewrite !Nat.add_0_r in X).
  constructor; cbn [new_event snd set_events events agenda next_eid active procs glob obs]; rewrite ?app_length; cbn [length]; try assumption.
  - intros k. replace (length (events a) + 1 + k) with (length (events a) + (1 + k)) by lia. rewrite Ff. lia.
  - intros j ev0 H. destruct (nth_error_app_cases _ _ _ _ H) as [[L Hj]|[-> ->]].
    + destruct (Ev _ _ Hj) as [D0 B0]. split; [eapply evdom_mono; [|exact D0]; lia|].
      rewrite nth_error_app1; [exact B0|]. apply nth_error_Some. congruence.
    + split; [rewrite Nat.add_1_r; exact D|]. rewrite F0. apply nth_error_app_last.
  - intros j ev' H N. destruct (nth_error_app_cases _ _ _ _ H) as [[L Hj]|[-> _]].
    + apply (Gh _ _ Hj). intros i Li. apply N. lia.
    + exfalso. apply (N (length (events a))); [lia|exact F0].
  - intros x Hx. destruct (A1 _ Hx) as (X1 & X2 & X3). split; [lia|]. split; assumption.
  - intros y Hy. destruct (A2 _ Hy) as (Y1 & Y2 & Y3). split; [lia|]. split; [exact Y2|].
    destruct Y3 as [L|[N1 N2]]; [left; exact L|right]. split; [|exact N2].
    intros i Li. destruct (Nat.eq_dec i (length (events a))) as [->|Ne]; [rewrite F0; lia|]. apply N1. lia.
  - destruct Pr as [L P]. split; [exact L|]. intros p pr H. destruct (P _ _ H) as (pr' & H' & R). exists pr'. split; [exact H'|].
    eapply proc_rel_mono; [apply agree_refl| |exact R]. lia.
  - destruct Gl as [D0 E0]. split; [eapply vsdom_mono; [|exact D0]; lia|exact E0].
  - eapply obs_rel_mono; [apply agree_refl| |exact Ob]. lia.
Qed.

(* Environment.schedule on both sides (the clocks agree) *)
Lemma sim_schedule f g a b e p d :
  sim f g a b -> now b = now a -> e < length (events a) -> sim f g (schedule e p d a) (schedule (f e) p d b).
Proof.
  intros S N L. pose proof (sim_f_lt _ _ _ _ S _ L) as Lb. destruct S as [F G Ff Gf Ac Ev Gh A1 A2 Pr Gl Ob].
  assert (G0 : g (next_eid a) = next_eid b) by (pose proof (Gf 0) as X; now rewrite !Nat.add_0_r in X).
  constructor; cbn [schedule events agenda next_eid active procs glob obs]; try assumption.
  - intros k. replace (S (next_eid a) + k) with (next_eid a + (1 + k)) by lia. rewrite Gf. lia.
  - intros x Hx. apply in_app_or in Hx. destruct Hx as [Hx|[<-|[]]].
    + destruct (A1 _ Hx) as (X1 & X2 & X3). split; [exact X1|]. split; [lia|]. apply in_or_app. left. exact X3.
    + cbn [e_ev e_eid]. split; [exact L|]. split; [lia|]. apply in_or_app. right. left.
      unfold ren_entry. cbn [e_time e_prio e_eid e_ev]. rewrite G0, N. reflexivity.
  - intros y Hy. apply in_app_or in Hy. destruct Hy as [Hy|[<-|[]]].
    + destruct (A2 _ Hy) as (Y1 & Y2 & Y3). split; [exact Y1|]. split; [lia|].
      destruct Y3 as [(x & Hx & ->)|[N1 N2]].
      * left. exists x. split; [apply in_or_app; left; exact Hx|reflexivity].
      * right. split; [exact N1|]. intros i Li. destruct (Nat.eq_dec i (next_eid a)) as [->|Ne]; [rewrite G0; lia|]. apply N2. lia.
    + cbn [e_ev e_eid]. split; [exact Lb|]. split; [lia|]. left.
      exists (mkEntry (Qred (now a + d)) p (next_eid a) e). split; [apply in_or_app; right; left; reflexivity|].
      unfold ren_entry. cbn [e_time e_prio e_eid e_ev]. rewrite G0, N. reflexivity.
Qed.
