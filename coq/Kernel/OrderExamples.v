(* Kernel/OrderExamples.v -- C01: the concrete execution used by Props/C01_Examples.v to show that the hypotheses of
   the C01 theorems are simultaneously satisfiable on a non-trivial instance, and the helper lemmas that turn a
   computed run of the executable kernel ([step], [run_frag]) into the inductive [Order.exec] the theorems quantify over.

   The scenario (two processes, four coinciding occurrences at instant 0, an interrupt, three instants 0, 1/2, 1):
     module level   t7 := timeout(0, 7);  W := process(oW);  t8 := timeout(0, 8);  I := process(oI)
     oW             yield timeout(1)        -- interrupted at 1/2, logs the Interrupt, ends
     oI             yield timeout(1/2);  W.interrupt(5);  ends
   Agenda after the module-level code ([o0], all due at 0):   t7 NORMAL #0,  Init W URGENT #1,  t8 NORMAL #2,  Init I URGENT #3.
   The kernel then pops, in this order ([oL]):
     Init W #1, Init I #3 (urgent first, in trigger order), t7 #0, t8 #2 (normal, in trigger order)           at 0
     timeout(1/2) #5 (I resumes, interrupts W, ends), Interruption #6 (URGENT: before I's Process event #7
     although due at the same instant), Process I #7, Process W #8                                              at 1/2
     timeout(1) #4 (W's abandoned timeout)                                                                      at 1
   [oS n] is the state after n steps. *)
From Coq Require Import ZArith QArith List Bool Lia.
From ONL Require Import Kernel.Model Kernel.Script Kernel.Keys Kernel.Inv Kernel.Order.
Import ListNotations.
Local Open Scope nat_scope.

(* ------------------------------------------------------------------------------------------------ *)
(* generic: computed runs are executions *)

Fixpoint nsteps (fuel : nat) (codes : list prog) (n : nat) (s : state) : state :=
  match n with O => s | S k => nsteps fuel codes k (fst (step fuel codes s)) end.

(* the labels of the next n steps (the entries they pop); None if the agenda runs dry before *)
Fixpoint klabels (fuel : nat) (codes : list prog) (n : nat) (s : state) : option (list (option entry)) :=
  match n with
  | O => Some []
  | S k => match pop_min (agenda s) with
           | None => None
           | Some (m, _) => match klabels fuel codes k (fst (step fuel codes s)) with
                            | Some l => Some (Some m :: l)
                            | None => None
                            end
           end
  end.

Lemma nsteps_add fuel codes a : forall b s, nsteps fuel codes (a + b) s = nsteps fuel codes b (nsteps fuel codes a s).
Proof. induction a as [|a IH]; intros b s; [reflexivity|]. cbn [Nat.add nsteps]. apply IH. Qed.

Lemma klabels_exec fuel codes n : forall s l,
  klabels fuel codes n s = Some l -> Order.exec codes s l (nsteps fuel codes n s).
Proof.
  induction n as [|n IH]; intros s l H; cbn [klabels nsteps] in *.
  - injection H as <-. constructor.
  - destruct (pop_min (agenda s)) as [[m rest]|] eqn:P; [|discriminate].
    destruct (klabels fuel codes n (fst (step fuel codes s))) as [l'|] eqn:K; [|discriminate].
    injection H as <-. econstructor; [|apply IH, K].
    eapply KStep; [apply surjective_pairing|exact P].
Qed.

Lemma nsteps_good fuel codes n : forall s, good s -> good (nsteps fuel codes n s).
Proof.
  induction n as [|n IH]; intros s G; cbn [nsteps]; [exact G|]. apply IH.
  exact (proj2 (step_now_monotone fuel codes s _ _ G (surjective_pairing _))).
Qed.

Lemma kstep_trans fuel codes s m rest :
  pop_min (agenda s) = Some (m, rest) -> ktrans codes s (Some m) (fst (step fuel codes s)).
Proof. intros H. eapply KStep; [apply surjective_pairing|exact H]. Qed.

Lemma nsteps_trans fuel codes n s m rest :
  pop_min (agenda (nsteps fuel codes n s)) = Some (m, rest) ->
  ktrans codes (nsteps fuel codes n s) (Some m) (nsteps fuel codes (S n) s).
Proof.
  intros H. replace (nsteps fuel codes (S n) s) with (fst (step fuel codes (nsteps fuel codes n s))); [eapply kstep_trans, H|].
  replace (S n) with (n + 1)%nat by lia. rewrite nsteps_add. reflexivity.
Qed.

(* module-level code: one [None]-labelled transition per API call *)
Fixpoint frag_calls {A : Type} (codes : list prog) (f : frag A) (s : state) : nat :=
  match f with
  | FCall c k => let '(s1, o) := do_call codes c s in S (frag_calls codes (k o) s1)
  | _ => O
  end.

Lemma run_frag_exec_n {A : Type} codes (f : frag A) : forall s,
  Order.exec codes s (repeat None (frag_calls codes f s)) (fst (run_frag codes f s)).
Proof.
  induction f as [v a|v|x|c k IH]; intros s; cbn [frag_calls run_frag repeat fst]; try constructor.
  destruct (do_call codes c s) as [s1 o] eqn:C. cbn [repeat]. econstructor; [eapply KCall, C|apply IH].
Qed.

(* ------------------------------------------------------------------------------------------------ *)
(* the scenario *)

Definition oW : list instr := [ITimeout (L 1) 1 XNone; IYield 1 (XReg (L 1)) (L 2) YCatch; ILog (XReg (L 2))].
Definition oI : list instr := [ITimeout (L 1) (1 # 2) XNone; IYield 2 (XReg (L 1)) (L 2) YCatch; IInterrupt (G 1) (XInt 5)].
Definition ocodes : list prog := map compile [oW; oI].
Definition osetup : list instr :=
  [ITimeout (G 0) 0 (XInt 7); ISpawn (G 1) 0 XNone; ITimeout (G 2) 0 (XInt 8); ISpawn (G 3) 1 XNone].

Definition o0 : state := fst (run_frag ocodes (Script.exec osetup []) (init_state 0)).
Definition oS (n : nat) : state := nsteps 50 ocodes n o0.

(* the nine agenda entries of the run: time, class, insertion id, event *)
Definition eT7 : entry := mkEntry 0 NORMAL 0 0.          (* timeout(0, 7) *)
Definition eIW : entry := mkEntry 0 URGENT 1 2.          (* Initialize of W *)
Definition eT8 : entry := mkEntry 0 NORMAL 2 3.          (* timeout(0, 8) *)
Definition eII : entry := mkEntry 0 URGENT 3 5.          (* Initialize of I *)
Definition eTW : entry := mkEntry 1 NORMAL 4 6.          (* W's timeout(1), created at 0 *)
Definition eTI : entry := mkEntry (1 # 2) NORMAL 5 7.    (* I's timeout(1/2), created at 0 *)
Definition eX : entry := mkEntry (1 # 2) URGENT 6 8.     (* Interruption of W, created at 1/2 *)
Definition ePI : entry := mkEntry (1 # 2) NORMAL 7 4.    (* Process event of I (I ended at 1/2) *)
Definition ePW : entry := mkEntry (1 # 2) NORMAL 8 1.    (* Process event of W (W ended at 1/2) *)

Definition oL : list (option entry) := map Some [eIW; eII; eT7; eT8; eTI; eX; ePI; ePW; eTW].

Lemma o0_exec : Order.exec ocodes (init_state 0) (repeat None 8) o0.
Proof. exact (run_frag_exec_n ocodes (Script.exec osetup []) (init_state 0)). Qed.

Lemma o0_good : good o0.
Proof. eapply exec_good; [apply good_init|apply o0_exec]. Qed.

Lemma oS_good n : good (oS n).
Proof. apply nsteps_good, o0_good. Qed.

(* the n steps after step a, with the entries they pop *)
Lemma oS_exec a n l : klabels 50 ocodes n (oS a) = Some l -> Order.exec ocodes (oS a) l (oS (a + n)).
Proof. intros H. unfold oS at 2. rewrite nsteps_add. apply klabels_exec, H. Qed.

Lemma oS_trans a m rest : pop_min (agenda (oS a)) = Some (m, rest) -> ktrans ocodes (oS a) (Some m) (oS (S a)).
Proof.
  intros H. apply (nsteps_trans 50 ocodes a o0 m rest), H.
Qed.

(* a timeout created from module level at instant 1/2 (after five steps) with delay 1/4 *)
Definition oF : state := fst (do_call ocodes (CTimeout (1 # 4) (VInt 9)) (oS 5)).
Definition eN : entry := mkEntry (3 # 4) NORMAL 8 9.     (* the new timeout: due at 1/2 + 1/4 *)
Definition ePW' : entry := mkEntry (1 # 2) NORMAL 9 1.   (* W's Process event in this continuation *)

(* run(until = 3/4) entered after five steps (now = 1/2) *)
Definition oU : state := match run_prelude (UNum (3 # 4)) (oS 5) with inr s => s | inl (s, _) => s end.
Definition eStop : entry := mkEntry (3 # 4) URGENT 8 9.  (* the until-sentinel *)

Lemma oU_exec :
  Order.exec ocodes (init_state 0) (repeat None 8 ++ map Some [eIW; eII; eT7; eT8; eTI] ++ [None]) oU.
Proof.
  eapply exec_app; [apply o0_exec|]. eapply exec_app.
  - apply (oS_exec 0 5). vm_compute. reflexivity.
  - econstructor; [|constructor]. apply (KPrelude ocodes (UNum (3 # 4))). vm_compute. reflexivity.
Qed.
