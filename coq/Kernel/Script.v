(* Kernel/Script.v -- first-order script language for the CORRESPONDENCE only (theorems are about
   Kernel/Model.v and quantify over all automata, not over scripts).

   The Python harness (props/kernel_common.py) interprets the same scripts as real generator processes on the
   real onl.sim.Environment.  Both sides follow the conventions written here:

     registers     L i  local to one process instance (L 0 = the argument of the process)
                   G i  shared by all code (closure variables); kept in [glob] of the kernel state
     logging       every log entry is  OLog active_pid now (VList (VInt tag :: ...)):
                     tag 0  [0]                    the process body starts
                     tag 1  [1; lbl; [0; v]]       yield lbl returned value v
                            [1; lbl; [1; exn]]     yield lbl raised exn
                     tag 2  [2; exn]               an API call raised exn (caught at the call site)
                     tag 3  [3; v]                 ILog v
                     tag 4  [4]                    an operand register did not hold an event: call skipped
     yields        YPropagate re-raises a received exception (the process fails with it); YCatch stores it in
                   dst and continues; YRetry k yields the same value again after an Interrupt (at most k times),
                   otherwise behaves like YCatch
     main          definitions: instr, compile, pitem, run_plan, agree  *)
From Coq Require Import ZArith QArith List Bool.
From ONL Require Import Kernel.Model.
Import ListNotations.

Inductive reg := L (i : nat) | G (i : nat).

Inductive vexp := XNone | XInt (z : Z) | XReg (r : reg) | XUser (tag : Z) (arg : Z).

Inductive ymode := YPropagate | YCatch | YRetry (k : nat).

Inductive instr :=
| ITimeout (dst : reg) (d : Q) (v : vexp)
| IEvent (dst : reg)
| ISucceed (e : reg) (v : vexp)
| IFail (e : reg) (x : vexp)
| ISpawn (dst : reg) (code : nat) (arg : vexp)
| IInterrupt (p : reg) (cause : vexp)
| ICond (dst : reg) (all : bool) (es : list reg)         (* all_of / any_of / & / | *)
| IProbe (e : reg) (n : nat)
| IQuery (dst : reg) (q : query) (e : reg)
| INow (dst : reg)
| IPeek (dst : reg)
| ISet (dst : reg) (v : vexp)
| ILog (v : vexp)
| IYield (lbl : Z) (v : vexp) (dst : reg) (m : ymode)
| IReturn (v : vexp)
| IRaise (x : vexp)
| IIfExn (r : reg) (i : instr)                            (* run i if register r holds an exception *)
| IIfOk (r : reg) (i : instr).                            (* run i if it does not *)

Record sst := mkSst {
  s_code : list instr;                                    (* what remains to be executed *)
  s_regs : list val;
  s_wait : option (Z * val * reg * ymode) }.              (* the yield the generator is suspended at *)

Definition M_raise_non_exception : Z := 16.               (* TypeError: exceptions must derive from BaseException *)

Definition oval (o : outcome) : val :=
  match o with Ok v => VList [VInt 0; v] | Fail x => VList [VInt 1; exn_val x] end.
Definition okv (o : outcome) : val := match o with Ok v => v | Fail x => exn_val x end.
Definition is_exn (v : val) : bool := match v with VExn _ _ => true | _ => false end.
Definition get_ev (v : val) : option evid := match v with VEv e => Some e | _ => None end.

Section Exec.
  Definition F := frag sst.

  Definition log (v : val) (k : F) : F := FCall (CLog v) (fun _ => k).

  Definition read_reg (r : reg) (regs : list val) (k : val -> F) : F :=
    match r with
    | L i => k (nth i regs VNone)
    | G g => FCall (CGetG g) (fun o => k (okv o))
    end.

  Definition write_reg (r : reg) (v : val) (regs : list val) (k : list val -> F) : F :=
    match r with
    | L i => k (set_nth_val i v regs)
    | G g => FCall (CSetG g v) (fun _ => k regs)
    end.

  Definition eval (x : vexp) (regs : list val) (k : val -> F) : F :=
    match x with
    | XNone => k VNone
    | XInt z => k (VInt z)
    | XReg r => read_reg r regs k
    | XUser tag arg => k (VExn (EUser tag) [VInt arg])
    end.

  Fixpoint read_regs (rs : list reg) (regs : list val) (k : list val -> F) : F :=
    match rs with
    | [] => k []
    | r :: t => read_reg r regs (fun v => read_regs t regs (fun vs => k (v :: vs)))
    end.

  Fixpoint all_evs (vs : list val) : option (list evid) :=
    match vs with
    | [] => Some []
    | v :: t => match get_ev v, all_evs t with Some e, Some l => Some (e :: l) | _, _ => None end
    end.

  (* an API call: the result goes to dst (if any); an exception is logged with tag 2 and dst is left alone *)
  Definition api (c : call) (dst : option reg) (regs : list val) (k : list val -> F) : F :=
    FCall c (fun o =>
      match o with
      | Ok v => match dst with Some r => write_reg r v regs k | None => k regs end
      | Fail x => log (VList [VInt 2; exn_val x]) (k regs)
      end).

  Definition with_ev (r : reg) (regs : list val) (k : list val -> F) (body : evid -> F) : F :=
    read_reg r regs (fun v => match get_ev v with
                              | Some e => body e
                              | None => log (VList [VInt 4]) (k regs)
                              end).

  (* one instruction; [rest] is the code after it (needed for the state stored at a yield),
     [k] continues with the rest *)
  Fixpoint exec_i (i : instr) (rest : list instr) (regs : list val) (k : list val -> F) : F :=
    match i with
    | ITimeout dst d v => eval v regs (fun v' => api (CTimeout d v') (Some dst) regs k)
    | IEvent dst => api CEvent (Some dst) regs k
    | ISucceed e v => with_ev e regs k (fun e' => eval v regs (fun v' => api (CSucceed e' v') None regs k))
    | IFail e x => with_ev e regs k (fun e' => eval x regs (fun x' => api (CFail e' x') None regs k))
    | ISpawn dst code arg => eval arg regs (fun a => api (CSpawn code a) (Some dst) regs k)
    | IInterrupt p cause => with_ev p regs k (fun e' => eval cause regs (fun c => api (CInterrupt e' c) None regs k))
    | ICond dst all es =>
        read_regs es regs (fun vs =>
          match all_evs vs with
          | Some l => api (if all then CAllOf l else CAnyOf l) (Some dst) regs k
          | None => log (VList [VInt 4]) (k regs)
          end)
    | IProbe e n => with_ev e regs k (fun e' => api (CProbe e' n) None regs k)
    | IQuery dst q e => with_ev e regs k (fun e' => api (CQuery q e') (Some dst) regs k)
    | INow dst => api CNow (Some dst) regs k
    | IPeek dst => api CPeek (Some dst) regs k
    | ISet dst v => eval v regs (fun v' => write_reg dst v' regs k)
    | ILog v => eval v regs (fun v' => log (VList [VInt 3; v']) (k regs))
    | IYield lbl v dst m => eval v regs (fun v' => FYield v' (mkSst rest regs (Some (lbl, v', dst, m))))
    | IReturn v => eval v regs (fun v' => FRet v')
    | IRaise x => eval x regs (fun x' => match x' with
                                         | VExn c args => FRaise (c, args)
                                         | _ => FRaise (kexn EType M_raise_non_exception)
                                         end)
    | IIfExn r j => read_reg r regs (fun v => if is_exn v then exec_i j rest regs k else k regs)
    | IIfOk r j => read_reg r regs (fun v => if is_exn v then k regs else exec_i j rest regs k)
    end.

  Fixpoint exec (l : list instr) (regs : list val) : F :=
    match l with
    | [] => FRet VNone
    | i :: rest => exec_i i rest regs (exec rest)
    end.

  Definition is_interrupt (x : exn) : bool := match fst x with EInterrupt => true | _ => false end.

  Definition script_resume (st : sst) (o : outcome) : F :=
    match s_wait st with
    | None => log (VList [VInt 0]) (exec (s_code st) (s_regs st))
    | Some (lbl, yv, dst, m) =>
        log (VList [VInt 1; VInt lbl; oval o])
          (match o with
           | Ok v => write_reg dst v (s_regs st) (exec (s_code st))
           | Fail x =>
               match m with
               | YPropagate => FRaise x
               | YCatch => write_reg dst (exn_val x) (s_regs st) (exec (s_code st))
               | YRetry (S n) =>
                   if is_interrupt x then FYield yv (mkSst (s_code st) (s_regs st) (Some (lbl, yv, dst, YRetry n)))
                   else write_reg dst (exn_val x) (s_regs st) (exec (s_code st))
               | YRetry O => write_reg dst (exn_val x) (s_regs st) (exec (s_code st))
               end
           end)
    end.
End Exec.

Definition compile (code : list instr) : prog :=
  mkProg sst (fun arg => mkSst code [arg] None) script_resume.

(* ------------------------------------------------------------------------------------------------ *)
(* run plans *)

Inductive pitem :=
| PExec (l : list instr)          (* module-level code: calls only (a yield ends it) *)
| PRun                            (* env.run() *)
| PRunNum (t : Q)                 (* env.run(until=t) *)
| PRunEv (g : nat)                (* env.run(until=G g)  -- skipped with AttributeError code 10 if G g is not an event *)
| PStep (n : nat).                (* up to n times env.step(), stopping at the first exception *)

Definition pres := (result * Q * option Q)%type.          (* outcome of the item, now, peek afterwards *)

(* [fixed_stop] = true: the repaired kernel ([step]/[run]); false: the kernel as found before the C03 fix *)
Fixpoint steps_sel (fixed_stop : bool) (n : nat) (fuel : nat) (codes : list prog) (s : state) : state * result :=
  match n with
  | O => (s, ROk)
  | S m => let '(s1, r) := step_sel fixed_stop fuel codes s in
           match r with ROk => steps_sel fixed_stop m fuel codes s1 | _ => (s1, r) end
  end.
Definition steps := steps_sel true.

(* what the caller of run() sees: "returned v" (None when the agenda ran dry; a stale stop callback left by an
   earlier run() that ended with an exception also makes a plain run() return) *)
Definition ret_norm (x : state * result) : state * result :=
  match snd x with ROk => (fst x, RStop VNone) | _ => x end.

Definition run_item_sel (fixed_stop : bool) (fuel : nat) (codes : list prog) (it : pitem) (s : state) : state * result :=
  match it with
  | PExec l => let '(s1, r) := exec_top codes (exec l []) s in
               (s1, match r with FrRaise x => RRaise x | _ => ROk end)
  | PRun => ret_norm (run_sel fixed_stop fuel codes UNone s)
  | PRunNum t => ret_norm (run_sel fixed_stop fuel codes (UNum t) s)
  | PRunEv g => match nth g (glob s) VNone with
                | VEv e => ret_norm (run_sel fixed_stop fuel codes (UEv e) s)
                | _ => (s, RRaise (kexn EAttribute M_not_an_event))
                end
  | PStep n => steps_sel fixed_stop n fuel codes s
  end.
Definition run_item := run_item_sel true.

Fixpoint run_plan_sel (fixed_stop : bool) (fuel : nat) (codes : list prog) (plan : list pitem) (s : state) : state * list pres :=
  match plan with
  | [] => (s, [])
  | it :: t => let '(s1, r) := run_item_sel fixed_stop fuel codes it s in
               let '(s2, rs) := run_plan_sel fixed_stop fuel codes t s1 in
               (s2, (r, now s1, peek s1) :: rs)
  end.
Definition run_plan := run_plan_sel true.

(* ------------------------------------------------------------------------------------------------ *)
(* comparison with the recorded implementation trace *)

Definition ecls_eqb (a b : ecls) : bool :=
  match a, b with
  | EInterrupt, EInterrupt | ERuntime, ERuntime | EValue, EValue | EAttribute, EAttribute
  | EType, EType | EAssert, EAssert => true
  | EUser x, EUser y => Z.eqb x y
  | _, _ => false
  end.

Fixpoint val_eqb (a b : val) : bool :=
  match a, b with
  | VNone, VNone => true
  | VInt x, VInt y => Z.eqb x y
  | VNum x, VNum y => Qeq_bool x y
  | VEv x, VEv y => Nat.eqb x y
  | VCond l1, VCond l2 =>
      (fix go (l1 l2 : list (evid * val)) : bool :=
         match l1, l2 with
         | [], [] => true
         | (e1, v1) :: t1, (e2, v2) :: t2 => Nat.eqb e1 e2 && val_eqb v1 v2 && go t1 t2
         | _, _ => false
         end) l1 l2
  | VList l1, VList l2 =>
      (fix go (l1 l2 : list val) : bool :=
         match l1, l2 with
         | [], [] => true
         | v1 :: t1, v2 :: t2 => val_eqb v1 v2 && go t1 t2
         | _, _ => false
         end) l1 l2
  | VExn c1 l1, VExn c2 l2 =>
      ecls_eqb c1 c2 &&
      (fix go (l1 l2 : list val) : bool :=
         match l1, l2 with
         | [], [] => true
         | v1 :: t1, v2 :: t2 => val_eqb v1 v2 && go t1 t2
         | _, _ => false
         end) l1 l2
  | _, _ => false
  end.

Definition exn_eqb (x y : exn) : bool := val_eqb (exn_val x) (exn_val y).
Definition outcome_eqb (a b : outcome) : bool :=
  match a, b with
  | Ok x, Ok y => val_eqb x y
  | Fail x, Fail y => exn_eqb x y
  | _, _ => false
  end.

Definition opt_eqb {A : Type} (f : A -> A -> bool) (a b : option A) : bool :=
  match a, b with None, None => true | Some x, Some y => f x y | _, _ => false end.

Fixpoint all2 {A : Type} (f : A -> A -> bool) (l1 l2 : list A) : bool :=
  match l1, l2 with
  | [], [] => true
  | x :: t1, y :: t2 => f x y && all2 f t1 t2
  | _, _ => false
  end.

Definition obs_eqb (a b : observation) : bool :=
  match a, b with
  | OStep e t, OStep e' t' => Nat.eqb e e' && Qeq_bool t t'
  | OProbe n e t o, OProbe n' e' t' o' => Nat.eqb n n' && Nat.eqb e e' && Qeq_bool t t' && opt_eqb outcome_eqb o o'
  | OLog p t v, OLog p' t' v' => opt_eqb Nat.eqb p p' && Qeq_bool t t' && val_eqb v v'
  | _, _ => false
  end.

Definition result_eqb (a b : result) : bool :=
  match a, b with
  | ROk, ROk | REmpty, REmpty | RFuel, RFuel | RBroken, RBroken => true
  | RStop x, RStop y => val_eqb x y
  | RRaise x, RRaise y => exn_eqb x y
  | _, _ => false
  end.

Definition pres_eqb (a b : pres) : bool :=
  let '(r, t, p) := a in let '(r', t', p') := b in
  result_eqb r r' && Qeq_bool t t' && opt_eqb Qeq_bool p p'.

Definition default_fuel : nat := 2000.

(* the model's behaviour on a case: trace in chronological order, per-item results *)
Definition model_run_sel (fixed_stop : bool) (t0 : Q) (scripts : list (list instr)) (plan : list pitem)
  : list observation * list pres :=
  let '(s, rs) := run_plan_sel fixed_stop default_fuel (map compile scripts) plan (init_state t0) in
  (rev (obs s), rs).
Definition model_run := model_run_sel true.

(* [agree] with the kernel as found before the C03 fix (for refutation witnesses / replaying old traces) *)
Definition agree_sel (fixed_stop : bool) (t0 : Q) (scripts : list (list instr)) (plan : list pitem)
                     (trace : list observation) (results : list pres) : bool :=
  let '(tr, rs) := model_run_sel fixed_stop t0 scripts plan in
  all2 obs_eqb tr trace && all2 pres_eqb rs results.

Definition agree (t0 : Q) (scripts : list (list instr)) (plan : list pitem)
                 (trace : list observation) (results : list pres) : bool :=
  let '(tr, rs) := model_run t0 scripts plan in
  all2 obs_eqb tr trace && all2 pres_eqb rs results.

(* index of the first differing trace entry / plan item (diagnosis in replay files) *)
Fixpoint first_diff {A : Type} (f : A -> A -> bool) (l1 l2 : list A) (i : nat) : option nat :=
  match l1, l2 with
  | [], [] => None
  | x :: t1, y :: t2 => if f x y then first_diff f t1 t2 (S i) else Some i
  | _, _ => Some i
  end.
Definition diagnose (t0 : Q) (scripts : list (list instr)) (plan : list pitem)
                    (trace : list observation) (results : list pres) :=
  let '(tr, rs) := model_run t0 scripts plan in
  (first_diff obs_eqb tr trace 0, first_diff pres_eqb rs results 0).

(* ------------------------------------------------------------------------------------------------ *)
(* Compact cases (additive; [instr] is unchanged): long streaks for the correspondence.  A code is a list of
   [ritem]s -- single instructions and blocks repeated n times -- unrolled by [expand] before compilation, so
   the semantics of a repeated block is the block written out n times (iterated yields).  The recorded trace
   may be run-length encoded the same way ([titem]); [agree_long] takes the fuel (number of steps / of already
   processed events yielded in a row) explicitly. *)
Inductive ritem := RI (i : instr) | RRep (n : nat) (body : list instr).

Fixpoint rep_app {A : Type} (n : nat) (block acc : list A) : list A :=
  match n with O => acc | S m => block ++ rep_app m block acc end.

Fixpoint expand (l : list ritem) : list instr :=
  match l with
  | [] => []
  | RI i :: t => i :: expand t
  | RRep n b :: t => rep_app n b (expand t)
  end.

Inductive titem := TO (o : observation) | TRep (n : nat) (block : list observation).

Fixpoint expand_tr (l : list titem) : list observation :=
  match l with
  | [] => []
  | TO o :: t => o :: expand_tr t
  | TRep n b :: t => rep_app n b (expand_tr t)
  end.

Definition model_run_long (fuel : nat) (t0 : Q) (scripts : list (list ritem)) (plan : list pitem)
  : list observation * list pres :=
  let '(s, rs) := run_plan_sel true fuel (map (fun c => compile (expand c)) scripts) plan (init_state t0) in
  (rev (obs s), rs).

Definition agree_long (fuel : nat) (t0 : Q) (scripts : list (list ritem)) (plan : list pitem)
                      (trace : list titem) (results : list pres) : bool :=
  let '(tr, rs) := model_run_long fuel t0 scripts plan in
  all2 obs_eqb tr (expand_tr trace) && all2 pres_eqb rs results.

Definition diagnose_long (fuel : nat) (t0 : Q) (scripts : list (list ritem)) (plan : list pitem)
                         (trace : list titem) (results : list pres) :=
  let '(tr, rs) := model_run_long fuel t0 scripts plan in
  (first_diff obs_eqb tr (expand_tr trace) 0, first_diff pres_eqb rs results 0, List.length tr).

(* Digest of a trace, for long traces that would be too large as a literal term: a rolling hash of a structural
   encoding of every observation (times after Qred), mirrored by props/kernel_common.py [trace_digest].
   [agree_digest] compares the number of entries, the digest of the WHOLE trace and, literally, its last entries. *)
Definition HP : Z := 2305843009213693951%Z.     (* 2^61 - 1 *)
Definition HB : Z := 1000003%Z.
Definition hmix (h x : Z) : Z := ((h * HB + x + 1) mod HP)%Z.

Definition enc_q (q : Q) (h : Z) : Z := let r := Qred q in hmix (hmix h (Qnum r)) (Zpos (Qden r)).
Definition enc_cls (c : ecls) (h : Z) : Z :=
  match c with
  | EInterrupt => hmix h 1 | ERuntime => hmix h 2 | EValue => hmix h 3 | EAttribute => hmix h 4
  | EType => hmix h 5 | EAssert => hmix h 6 | EUser t => hmix (hmix h 7) t
  end.

Fixpoint enc_val (v : val) (h : Z) : Z :=
  match v with
  | VNone => hmix h 1
  | VInt z => hmix (hmix h 2) z
  | VNum q => enc_q q (hmix h 3)
  | VEv e => hmix (hmix h 4) (Z.of_nat e)
  | VCond items =>
      (fix go (l : list (evid * val)) (h : Z) : Z :=
         match l with [] => hmix h 0 | (e, x) :: t => go t (enc_val x (hmix h (Z.of_nat e))) end) items (hmix h 5)
  | VList l =>
      (fix go (l : list val) (h : Z) : Z :=
         match l with [] => hmix h 0 | x :: t => go t (enc_val x h) end) l (hmix h 6)
  | VExn c args =>
      (fix go (l : list val) (h : Z) : Z :=
         match l with [] => hmix h 0 | x :: t => go t (enc_val x h) end) args (enc_cls c (hmix h 7))
  end.

Definition enc_outcome (o : option outcome) (h : Z) : Z :=
  match o with
  | None => hmix h 0
  | Some (Ok v) => enc_val v (hmix h 1)
  | Some (Fail x) => enc_val (exn_val x) (hmix h 2)
  end.

Definition enc_obs (o : observation) (h : Z) : Z :=
  match o with
  | OStep e t => enc_q t (hmix (hmix h 1) (Z.of_nat e))
  | OProbe n e t oc => enc_outcome oc (enc_q t (hmix (hmix (hmix h 2) (Z.of_nat n)) (Z.of_nat e)))
  | OLog p t v => enc_val v (enc_q t (hmix (hmix h 3) (match p with None => 0 | Some q => Z.of_nat (S q) end)))
  end.

Definition trace_digest (tr : list observation) : Z := fold_left (fun h o => enc_obs o h) tr 7%Z.

Definition agree_digest (fuel : nat) (t0 : Q) (scripts : list (list ritem)) (plan : list pitem)
                        (len : nat) (digest : Z) (tail : list observation) (results : list pres) : bool :=
  let '(tr, rs) := model_run_long fuel t0 scripts plan in
  Nat.eqb (List.length tr) len && Z.eqb (trace_digest tr) digest &&
  all2 obs_eqb (skipn (len - List.length tail) tr) tail && all2 pres_eqb rs results.

Definition diagnose_digest (fuel : nat) (t0 : Q) (scripts : list (list ritem)) (plan : list pitem) (k : nat) :=
  let '(tr, rs) := model_run_long fuel t0 scripts plan in
  (List.length tr, trace_digest tr, skipn (List.length tr - k) tr, rs).
