(* Bridging lemmas (DESIGN 2.6, second tie) for the Condition leaves: Condition.all_events / any_events / _check /
   _build_value as translated from the tree under test on every run (Gen/Extracted_cond.v) are [cond_evaluate],
   [cond_check] and [cond_build] of the hand-written kernel model (Kernel/Model.v) the C05 theorems are about.
   _remove_check_callbacks and _populate_value (loops over the operands) are effects of _build_value whose meaning is
   the model's [remove_checks] / [populate]; Condition.__init__ (loops) is not translated. *)
From Coq Require Import ZArith QArith List Bool Lia.
From ONL Require Import Kernel.Model Gen.Extracted_cond.
Import ListNotations.

(* the evaluation functions *)
Lemma bridge_cond_evaluate all n_ops count :
  cond_evaluate all n_ops count =
  snd (if all then gen_Condition_all_events {| c_count := 0 |} (Z.of_nat n_ops) (Z.of_nat count)
       else gen_Condition_any_events {| c_count := 0 |} (Z.of_nat n_ops) (Z.of_nat count)).
Proof.
  unfold cond_evaluate, gen_Condition_all_events, gen_Condition_any_events. destruct all; cbn [snd].
  - destruct (Nat.eqb_spec n_ops count), (Z.eqb_spec (Z.of_nat n_ops) (Z.of_nat count)); try reflexivity; lia.
  - destruct (Nat.ltb_spec 0 count), (Z.ltb_spec 0 (Z.of_nat count)); try lia;
      destruct (Nat.eqb_spec n_ops 0), (Z.eqb_spec (Z.of_nat n_ops) 0); try reflexivity; lia.
Qed.

(* Condition._check(op) of condition c *)
Definition check_fx (c op : evid) (x : option exn) (s1 : state) (fx : list cond_fx) : option state :=
  match fx, x with
  | [], _ => Some s1
  | [FxDefuseOperand; FxFailWithOperandValue], Some x' => Some (trigger_event c (Fail x') (upd_event op ev_set_defused s1))
  | [FxSucceed], _ => Some (trigger_event c (Ok VNone) s1)
  | _, _ => None
  end.

Lemma bridge_cond_check c op s cev oev all ops count :
  get_event c s = Some cev -> get_event op s = Some oev -> kind cev = KCond all ops count ->
  let failure := match out oev with Some (Fail x) => Some x | _ => None end in
  let g := gen_Condition_check {| c_count := Z.of_nat count |} (is_triggered cev)
                               (match failure with Some _ => false | None => true end)
                               (cond_evaluate all (length ops) (S count)) in
  (* the count field after the call, and the state *)
  (is_triggered cev = false -> c_count (fst g) = Z.of_nat (S count)) /\
  check_fx c op failure
           (if is_triggered cev then s else upd_event c (ev_set_kind (KCond all ops (S count))) s) (snd g) =
    Some (cond_check c op s).
Proof.
  intros Hc Ho Hk. unfold cond_check, gen_Condition_check, is_triggered. rewrite Hc, Ho, Hk.
  destruct (out cev) as [o|]; cbn -[Z.of_nat].
  - split; [discriminate|reflexivity].
  - split; [intros _; rewrite Nat2Z.inj_succ; unfold Z.succ;
             destruct (out oev) as [[v|x]|]; cbn; try destruct (cond_evaluate all (length ops) (S count)); reflexivity|].
    destruct (out oev) as [[v|x]|]; cbn; try (destruct (cond_evaluate all (length ops) (S count)); reflexivity);
      try reflexivity.
Qed.

(* Condition._build_value (the condition's own callback) *)
Definition build_fx (c : evid) (s : state) (fx : list cond_fx) : state * result :=
  match fx with
  | FxRemoveChecks :: t =>
      match remove_checks (S c) c s with
      | None => (s, RBroken)
      | Some s1 =>
          match t, get_event c s1 with
          | [], _ => (s1, ROk)
          | [FxNewValue; FxPopulate], Some cev =>
              match kind cev with
              | KCond _ ops _ =>
                  match populate (S c) (events s1) ops with
                  | Some items => (upd_event c (ev_set_out (Some (Ok (VCond items)))) s1, ROk)
                  | None => (s1, RBroken)
                  end
              | _ => (s1, RBroken)
              end
          | _, _ => (s1, RBroken)
          end
      end
  | _ => (s, RBroken)
  end.

Definition build_gen (c : evid) (s : state) : list cond_fx :=
  match remove_checks (S c) c s with
  | Some s1 => match get_event c s1 with
               | Some cev => snd (gen_Condition_build_value {| c_count := 0 |}
                                                           (match out cev with Some (Ok _) => true | _ => false end))
               | None => [FxRemoveChecks]
               end
  | None => [FxRemoveChecks]
  end.

Lemma bridge_cond_build c s :
  snd (cond_build c s) <> RBroken -> build_fx c s (build_gen c s) = cond_build c s.
Proof.
  unfold cond_build, build_fx, build_gen, gen_Condition_build_value.
  destruct (remove_checks (S c) c s) as [s1|]; [|reflexivity].
  destruct (get_event c s1) as [cev|] eqn:E; cbn [snd]; [|congruence].
  destruct (out cev) as [[v|x]|]; cbn [snd]; rewrite ?E; try reflexivity; try congruence;
    try (destruct (kind cev); reflexivity).
Qed.

(* ---- non-vacuity witnesses: all_of([e0, e1]) = event 2; e0 succeeds with 1 and is processed, then e1 with 2 ----------- *)
Definition exc_s0 : state := fst (call_cond true [0%nat; 1%nat] (fst (call_event (fst (call_event (init_state 0)))))).
Definition exc_s1 : state := fst (call_succeed 0%nat (VInt 1) exc_s0).
Lemma ex_cond_check :
  exists cev oev, get_event 2%nat exc_s1 = Some cev /\ get_event 0%nat exc_s1 = Some oev /\ kind cev = KCond true [0%nat; 1%nat] 0 /\
  is_triggered cev = false /\
  c_count (fst (gen_Condition_check {| c_count := 0 |} false true (cond_evaluate true 2 1))) = 1%Z /\
  snd (gen_Condition_check {| c_count := 0 |} false true (cond_evaluate true 2 1)) = [] /\
  option_map kind (get_event 2%nat (cond_check 2%nat 0%nat exc_s1)) = Some (KCond true [0%nat; 1%nat] 1) /\
  option_map out (get_event 2%nat (cond_check 2%nat 0%nat exc_s1)) = Some None.
Proof. do 2 eexists. split; [reflexivity|]. split; [reflexivity|]. repeat split; vm_compute; reflexivity. Qed.

(* both operands processed (two steps), the condition is triggered: its own callback builds the value *)
Definition exc_s2 : state :=
  fst (step 1 [] (fst (step 1 [] (fst (call_succeed 1%nat (VInt 2) exc_s1))))).
Lemma ex_cond_build :
  snd (cond_build 2%nat exc_s2) <> RBroken /\
  build_fx 2%nat exc_s2 (build_gen 2%nat exc_s2) = cond_build 2%nat exc_s2 /\
  build_gen 2%nat exc_s2 = [FxRemoveChecks; FxNewValue; FxPopulate] /\
  option_map out (get_event 2%nat (fst (cond_build 2%nat exc_s2))) = Some (Some (Ok (VCond [(0%nat, VInt 1); (1%nat, VInt 2)]))).
Proof.
  split; [vm_compute; discriminate|]. split; [apply bridge_cond_build; vm_compute; discriminate|].
  split; vm_compute; reflexivity.
Qed.
