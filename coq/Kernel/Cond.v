(* Kernel/Cond.v -- C05 (conditions), part 1: the kernel's executions as sequences of PRIMITIVE transitions.

   [prim x s s'] : one primitive state change of Kernel/Model.v, as far as events / callbacks / outcomes /
   the agenda are concerned.  The label [x] is [Some e] exactly for the tail of an explicit
   [Event.succeed / Event.fail] API call on the pending event e (an "external" trigger, issued by program
   text), and [None] for everything the kernel does by itself.
   [ptrace X s s'] : a finite sequence of primitives; X lists the externally triggered events.

   Decomposition lemmas (this file): every function of the model -- do_call (all 15 API calls), run_frag for
   every fragment of every automaton, resume_loop/resume_proc, do_interruption, every callback, run_callbacks,
   step, run_prelude, run_loop, run -- is a [ptrace], whatever its result (also RFuel / RBroken / RRaise).
   So an invariant of [prim] holds in every state of every execution of every program, including the states
   in the middle of a step.  Kernel/CondInv.v proves the invariants, Kernel/CondProofs.v the C05 theorems. *)
From Coq Require Import ZArith QArith List Bool Lia.
From ONL Require Import Kernel.Model.
Import ListNotations.

(* ------------------------------------------------------------------------------------------------ *)
(* lists of events: lookup after update / append *)

Lemma nth_upd_nth {A} (f : A -> A) l n m :
  nth_error (upd_nth n f l) m = if Nat.eqb m n then option_map f (nth_error l m) else nth_error l m.
Proof.
  revert n m. induction l as [|x t IH]; intros n m.
  - destruct n; destruct m; cbn; try reflexivity. destruct (Nat.eqb m n); reflexivity.
  - destruct n, m; cbn [upd_nth nth_error Nat.eqb option_map]; try reflexivity. apply IH.
Qed.

Lemma upd_nth_length {A} (f : A -> A) l n : length (upd_nth n f l) = length l.
Proof. revert n. induction l as [|x t IH]; intros [|n]; cbn; auto. Qed.

Lemma get_upd_same e f s ev : get_event e s = Some ev -> get_event e (upd_event e f s) = Some (f ev).
Proof. unfold get_event, upd_event. cbn. rewrite nth_upd_nth, Nat.eqb_refl. intros ->. reflexivity. Qed.

Lemma get_upd_other e e' f s : e' <> e -> get_event e' (upd_event e f s) = get_event e' s.
Proof.
  unfold get_event, upd_event. cbn. rewrite nth_upd_nth. intros H.
  destruct (Nat.eqb e' e) eqn:E; [apply Nat.eqb_eq in E; contradiction|reflexivity].
Qed.

Lemma get_upd e e' f s :
  get_event e' (upd_event e f s) = if Nat.eqb e' e then option_map f (get_event e' s) else get_event e' s.
Proof. unfold get_event, upd_event. cbn. apply nth_upd_nth. Qed.

Lemma upd_event_length e f s : length (events (upd_event e f s)) = length (events s).
Proof. unfold upd_event. cbn. apply upd_nth_length. Qed.

Lemma get_lt e s ev : get_event e s = Some ev -> (e < length (events s))%nat.
Proof. unfold get_event. intros H. apply nth_error_Some. congruence. Qed.

Lemma get_ge e s : (length (events s) <= e)%nat -> get_event e s = None.
Proof. unfold get_event. apply nth_error_None. Qed.

Lemma get_new_old ev s e : (e < length (events s))%nat -> get_event e (snd (new_event ev s)) = get_event e s.
Proof. unfold get_event, new_event. cbn. intros H. apply nth_error_app1, H. Qed.

Lemma get_new_new ev s : get_event (length (events s)) (snd (new_event ev s)) = Some ev.
Proof. unfold get_event, new_event. cbn. rewrite nth_error_app2 by lia. rewrite Nat.sub_diag. reflexivity. Qed.

Lemma get_new ev s e :
  get_event e (snd (new_event ev s)) =
  if Nat.ltb e (length (events s)) then get_event e s else if Nat.eqb e (length (events s)) then Some ev else None.
Proof.
  destruct (Nat.ltb e (length (events s))) eqn:L.
  - apply Nat.ltb_lt in L. apply get_new_old, L.
  - apply Nat.ltb_ge in L. destruct (Nat.eqb e (length (events s))) eqn:E.
    + apply Nat.eqb_eq in E. subst e. apply get_new_new.
    + apply Nat.eqb_neq in E. apply get_ge. unfold new_event. cbn. rewrite app_length. cbn. lia.
Qed.

Lemma new_event_eq ev s : new_event ev s = (length (events s), snd (new_event ev s)).
Proof. reflexivity. Qed.

Lemma new_event_fst ev s : fst (new_event ev s) = length (events s).
Proof. reflexivity. Qed.

Lemma new_event_length ev s : length (events (snd (new_event ev s))) = S (length (events s)).
Proof. unfold new_event. cbn. rewrite app_length. cbn. lia. Qed.

(* ------------------------------------------------------------------------------------------------ *)
(* primitives *)

(* callbacks that are not part of the condition machinery *)
Definition plain_cb (c : cb) : Prop := match c with CbCheck _ | CbBuild _ => False | _ => True end.

(* an event created by anything but Condition.__init__ *)
Definition plain_new (ev : event) : Prop :=
  (exists l, cbs ev = Some l /\ forall c, In c l -> plain_cb c) /\
  (match kind ev with KCond _ _ _ => False | _ => True end).

(* what may happen to the table of processes: entries keep their Process event, new entries are appended
   and carry an existing event of kind KProcess *)
Definition procs_ok (s : state) (ps : list procrec) : Prop :=
  (forall p pr, nth_error (procs s) p = Some pr -> exists pr', nth_error ps p = Some pr' /\ pev pr' = pev pr) /\
  (forall p pr, nth_error ps p = Some pr -> nth_error (procs s) p = None ->
                exists ev q, get_event (pev pr) s = Some ev /\ kind ev = KProcess q).

Definition same_store (s s' : state) : Prop :=
  events s' = events s /\ procs s' = procs s /\ agenda s' = agenda s.

Inductive iprim : option evid -> state -> state -> Prop :=
| p_frame s s' : same_store s s' -> iprim None s s'
| p_new ev s : plain_new ev -> iprim None s (snd (new_event ev s))
| p_sched e prio d s ev : get_event e s = Some ev -> out ev <> None -> iprim None s (schedule e prio d s)
| p_addcb e c s : plain_cb c -> iprim None s (add_callback e c s)
| p_rmcb e ev l c s : get_event e s = Some ev -> cbs ev = Some l -> plain_cb c ->
                      iprim None s (upd_event e (ev_set_cbs (Some (remove_first c l))) s)
| p_trig e ev o s : get_event e s = Some ev -> out ev = None ->
                    iprim (Some e) s (upd_event e (ev_set_out (Some o)) s)
| p_ptrig e ev q o s : get_event e s = Some ev -> kind ev = KProcess q ->
                       iprim None s (upd_event e (ev_set_out (Some o)) s)
| p_defuse e s : iprim None s (upd_event e ev_set_defused s)
| p_procs ps s : procs_ok s ps -> iprim None s (set_procs ps s)
| p_cond all es s : all_valid es s = true -> iprim None s (fst (call_cond all es s)).

(* the state in which the callbacks of the popped event run *)
Definition popped (m : entry) (rest : list entry) (s : state) : state :=
  upd_event (e_ev m) (ev_set_cbs None) (pop_state m rest s).

(* o is an operand of c (if c is a condition at all) *)
Definition opnd (s : state) (c o : evid) : Prop :=
  forall cev all ops n, get_event c s = Some cev -> kind cev = KCond all ops n -> In o ops.

(* all primitives: what program code and process resumption do ([iprim]), plus the three things only the
   kernel's step does: pop an event, run a _check callback of the popped event, run _build_value *)
Inductive prim : option evid -> state -> state -> Prop :=
| p_inner x s s' : iprim x s s' -> prim x s s'
| p_pop m rest s : pop_min (agenda s) = Some (m, rest) -> prim None s (popped m rest s)
| p_check c o oev s : get_event o s = Some oev -> cbs oev = None -> opnd s c o -> prim None s (cond_check c o s)
| p_build c s : prim None s (fst (cond_build c s)).

Definition lab (x : option evid) : list evid := match x with Some e => [e] | None => [] end.

Inductive ltrace (R : option evid -> state -> state -> Prop) : list evid -> state -> state -> Prop :=
| pt_nil s : ltrace R [] s s
| pt_cons x X s s1 s2 : R x s s1 -> ltrace R X s1 s2 -> ltrace R (lab x ++ X) s s2.

Notation ptrace := (ltrace prim).
Notation iptrace := (ltrace iprim).

Lemma pt_one {R : option evid -> state -> state -> Prop} x s s' : R x s s' -> ltrace R (lab x) s s'.
Proof. intros H. rewrite <- (app_nil_r (lab x)). econstructor; [exact H|constructor]. Qed.

Lemma pt_app {R : option evid -> state -> state -> Prop} X1 X2 s s1 s2 : ltrace R X1 s s1 -> ltrace R X2 s1 s2 -> ltrace R (X1 ++ X2) s s2.
Proof.
  induction 1 as [|x X s s1' s2' P T IH]; intros H2; [exact H2|].
  rewrite <- app_assoc. econstructor; [exact P|apply IH, H2].
Qed.

Lemma ltrace_mono (R R' : option evid -> state -> state -> Prop) :
  (forall x s s', R x s s' -> R' x s s') -> forall X s s', ltrace R X s s' -> ltrace R' X s s'.
Proof. intros H X s s' T. induction T; econstructor; eauto. Qed.

(* "some trace": the form used by the decomposition lemmas that do not care about labels *)
Definition steps (s s' : state) : Prop := exists X, ptrace X s s'.

Lemma steps_refl s : steps s s. Proof. exists []. constructor. Qed.
Lemma steps_trans s s1 s2 : steps s s1 -> steps s1 s2 -> steps s s2.
Proof. intros [X1 H1] [X2 H2]. exists (X1 ++ X2). eapply pt_app; eassumption. Qed.
Lemma steps_one x s s' : prim x s s' -> steps s s'.
Proof. intros H. exists (lab x). apply pt_one, H. Qed.

(* a generic induction principle: a reflexive-transitive relation containing every primitive contains steps *)
Lemma steps_ind_rel (R : state -> state -> Prop) :
  (forall s, R s s) -> (forall s s1 s2, R s s1 -> R s1 s2 -> R s s2) ->
  (forall x s s', prim x s s' -> R s s') -> forall s s', steps s s' -> R s s'.
Proof.
  intros Hr Ht Hp s s' [X H]. induction H as [|x X s s1 s2 P T IH]; [apply Hr|].
  eapply Ht; [eapply Hp, P|exact IH].
Qed.

(* ------------------------------------------------------------------------------------------------ *)
(* facts about primitives needed by the decomposition itself: the store only grows, processed events stay
   processed, a process keeps its Process event *)

Definition kind_le (k k' : ekind) : Prop :=
  k' = k \/ exists all ops n n', k = KCond all ops n /\ k' = KCond all ops n' /\ (n <= n')%nat.

Definition ev_le (ev ev' : event) : Prop :=
  kind_le (kind ev) (kind ev') /\ (cbs ev = None -> cbs ev' = None) /\ (out ev <> None -> out ev' <> None) /\
  (defused ev = true -> defused ev' = true).

Definition grows (s s' : state) : Prop :=
  (forall e ev, get_event e s = Some ev -> exists ev', get_event e s' = Some ev' /\ ev_le ev ev') /\
  (forall p pr, get_proc p s = Some pr -> exists pr', get_proc p s' = Some pr' /\ pev pr' = pev pr).

Lemma kind_le_refl k : kind_le k k. Proof. left; reflexivity. Qed.
Lemma kind_le_trans k1 k2 k3 : kind_le k1 k2 -> kind_le k2 k3 -> kind_le k1 k3.
Proof.
  intros [->|(a & o & n & n' & -> & -> & L)] [->|(a2 & o2 & m & m' & E & -> & L2)].
  - left; reflexivity.
  - right. exists a2, o2, m, m'. auto.
  - right. exists a, o, n, n'. auto.
  - injection E as <- <- <-. right. exists a, o, n, m'. repeat split; lia.
Qed.
Lemma ev_le_refl ev : ev_le ev ev. Proof. repeat split; auto using kind_le_refl. Qed.
Lemma ev_le_trans a b c : ev_le a b -> ev_le b c -> ev_le a c.
Proof. intros (A1 & A2 & A3 & A4) (B1 & B2 & B3 & B4). repeat split; eauto using kind_le_trans. Qed.

Lemma grows_refl s : grows s s.
Proof. split; [intros e ev H; exists ev; split; [exact H|apply ev_le_refl] | intros p pr H; exists pr; auto]. Qed.
Lemma grows_trans s1 s2 s3 : grows s1 s2 -> grows s2 s3 -> grows s1 s3.
Proof.
  intros [A1 A2] [B1 B2]. split.
  - intros e ev H. destruct (A1 _ _ H) as (ev' & H' & L). destruct (B1 _ _ H') as (ev'' & H'' & L').
    exists ev''. split; [exact H''|eapply ev_le_trans; eassumption].
  - intros p pr H. destruct (A2 _ _ H) as (pr' & H' & L). destruct (B2 _ _ H') as (pr'' & H'' & L').
    exists pr''. split; [exact H''|congruence].
Qed.

Lemma grows_same s s' : events s' = events s -> procs s' = procs s -> grows s s'.
Proof.
  intros E P. split.
  - intros e ev H. exists ev. split; [unfold get_event in *; rewrite E; exact H|apply ev_le_refl].
  - intros p pr H. exists pr. split; [unfold get_proc in *; rewrite P; exact H|reflexivity].
Qed.

Lemma grows_upd e f s : (forall ev, get_event e s = Some ev -> ev_le ev (f ev)) -> grows s (upd_event e f s).
Proof.
  intros Hf. split; [|intros p pr H; exists pr; auto].
  intros e0 ev H. rewrite get_upd. destruct (Nat.eqb e0 e) eqn:E.
  - apply Nat.eqb_eq in E. subst e0. rewrite H. cbn. exists (f ev). split; [reflexivity|apply Hf, H].
  - exists ev. split; [exact H|apply ev_le_refl].
Qed.

Lemma grows_new ev s : grows s (snd (new_event ev s)).
Proof.
  split; [|intros p pr H; exists pr; auto].
  intros e ev0 H. exists ev0. split; [rewrite get_new_old; [exact H|eapply get_lt, H]|apply ev_le_refl].
Qed.

Lemma ev_le_set_cbs c ev : cbs ev <> None -> ev_le ev (ev_set_cbs c ev).
Proof. intros H. repeat split; cbn; auto using kind_le_refl. intros; contradiction. Qed.
Lemma ev_le_set_cbs_none ev : ev_le ev (ev_set_cbs None ev).
Proof. repeat split; cbn; auto using kind_le_refl. Qed.
Lemma ev_le_set_out o ev : ev_le ev (ev_set_out (Some o) ev).
Proof. repeat split; cbn; auto using kind_le_refl. intros _; discriminate. Qed.
Lemma ev_le_set_defused ev : ev_le ev (ev_set_defused ev).
Proof. repeat split; cbn; auto using kind_le_refl. Qed.
Lemma ev_le_add_cb c ev : ev_le ev (ev_add_cb c ev).
Proof. unfold ev_add_cb. destruct (cbs ev) eqn:E; [apply ev_le_set_cbs; congruence|apply ev_le_refl]. Qed.

Lemma grows_schedule e p d s : grows s (schedule e p d s).
Proof. apply grows_same; reflexivity. Qed.

Lemma grows_trigger e o s : grows s (trigger_event e o s).
Proof.
  unfold trigger_event. eapply grows_trans; [|apply grows_schedule].
  apply grows_upd. intros ev _. apply ev_le_set_out.
Qed.

Lemma grows_cond_check c op s : grows s (cond_check c op s).
Proof.
  unfold cond_check.
  destruct (get_event c s) as [cev|] eqn:Hc; [|apply grows_refl].
  destruct (get_event op s) as [oev|] eqn:Ho; [|apply grows_refl].
  destruct (out cev) eqn:Oc; [apply grows_refl|].
  destruct (kind cev) as [| | | | |all ops count|] eqn:Kc; try apply grows_refl.
  assert (G1 : grows s (upd_event c (ev_set_kind (KCond all ops (S count))) s)).
  { apply grows_upd. intros ev H. rewrite Hc in H. injection H as <-. repeat split; cbn; auto.
    right. exists all, ops, count, (S count). repeat split; auto. }
  destruct (out oev) as [[v|x]|].
  - destruct (cond_evaluate all (length ops) (S count)); [|exact G1].
    eapply grows_trans; [exact G1|apply grows_trigger].
  - eapply grows_trans; [exact G1|]. eapply grows_trans; [|apply grows_trigger].
    apply grows_upd. intros ev _. apply ev_le_set_defused.
  - destruct (cond_evaluate all (length ops) (S count)); [|exact G1].
    eapply grows_trans; [exact G1|apply grows_trigger].
Qed.

Lemma grows_remove_check_from c o s : grows s (remove_check_from c o s).
Proof.
  unfold remove_check_from. destruct (get_event o s) as [oev|] eqn:Ho; [|apply grows_refl].
  destruct (cbs oev) as [l|] eqn:Cl; [|apply grows_refl].
  destruct (mem_cb (CbCheck c) l); [|apply grows_refl].
  apply grows_upd. intros ev H. rewrite Ho in H. injection H as <-. apply ev_le_set_cbs. congruence.
Qed.

Lemma grows_remove_ops rec c :
  (forall o s s', rec o s = Some s' -> grows s s') ->
  forall l s s', remove_ops rec c l s = Some s' -> grows s s'.
Proof.
  intros Hrec. induction l as [|o t IH]; intros s s'; cbn [remove_ops].
  - intros H; injection H as <-. apply grows_refl.
  - destruct (get_event o s) as [oev|]; [|discriminate].
    destruct (is_cond oev).
    + destruct (rec o (remove_check_from c o s)) as [s2|] eqn:R; [|discriminate]. intros H.
      eapply grows_trans; [apply grows_remove_check_from|]. eapply grows_trans; [eapply Hrec, R|]. apply IH, H.
    + intros H. eapply grows_trans; [apply grows_remove_check_from|]. apply IH, H.
Qed.

Lemma grows_remove_checks fuel : forall c s s', remove_checks fuel c s = Some s' -> grows s s'.
Proof.
  induction fuel as [|f IH]; intros c s s'; cbn [remove_checks]; [discriminate|].
  destruct (get_event c s) as [cev|]; [|discriminate].
  destruct (kind cev); try (intros H; injection H as <-; apply grows_refl).
  apply grows_remove_ops. exact IH.
Qed.

Lemma grows_cond_build c s : grows s (fst (cond_build c s)).
Proof.
  unfold cond_build. destruct (remove_checks (S c) c s) as [s1|] eqn:R; [|apply grows_refl].
  pose proof (grows_remove_checks _ _ _ _ R) as E1.
  destruct (get_event c s1) as [cev|]; [|exact E1].
  destruct (out cev) as [[v|x]|]; try exact E1.
  destruct (kind cev); try exact E1.
  destruct (populate (S c) (events s1) ops); [|exact E1].
  cbn [fst]. eapply grows_trans; [exact E1|]. apply grows_upd. intros ev _. apply ev_le_set_out.
Qed.

Lemma grows_add_callback e c s : grows s (add_callback e c s).
Proof. apply grows_upd. intros ev _. apply ev_le_add_cb. Qed.

Lemma grows_cond_subscribe c ops : forall s, grows s (cond_subscribe c ops s).
Proof.
  induction ops as [|o t IH]; intros s; cbn [cond_subscribe]; [apply grows_refl|].
  eapply grows_trans; [|apply IH].
  destruct (get_event o s) as [oev|]; [|apply grows_refl].
  destruct (is_processed oev); [apply grows_cond_check|apply grows_add_callback].
Qed.

Lemma grows_call_cond all es s : grows s (fst (call_cond all es s)).
Proof.
  unfold call_cond. destruct (negb (all_valid es s)); [apply grows_refl|].
  set (EV := mkEvent (Some []) None false (KCond all es 0)).
  pose proof (grows_new EV s) as X1.
  destruct (new_event EV s) as [c s1]. cbn [fst snd] in X1.
  destruct es as [|e0 es'].
  - cbn [fst]. eapply grows_trans; [exact X1|apply grows_trigger].
  - cbn [fst]. eapply grows_trans; [exact X1|]. eapply grows_trans; [apply grows_cond_subscribe|apply grows_add_callback].
Qed.

Lemma iprim_grows x s s' : iprim x s s' -> grows s s'.
Proof.
  intros H. destruct H.
  - destruct H as (E & P & _). apply grows_same; assumption.
  - apply grows_new.
  - apply grows_schedule.
  - apply grows_add_callback.
  - apply grows_upd. intros ev0 H2. rewrite H in H2. injection H2 as <-. apply ev_le_set_cbs. congruence.
  - apply grows_upd. intros ev0 _. apply ev_le_set_out.
  - apply grows_upd. intros ev0 _. apply ev_le_set_out.
  - apply grows_upd. intros ev0 _. apply ev_le_set_defused.
  - destruct H as [H _]. split; [intros e ev He; exists ev; split; [exact He|apply ev_le_refl]|exact H].
  - apply grows_call_cond.
Qed.

Lemma prim_grows x s s' : prim x s s' -> grows s s'.
Proof.
  intros H. destruct H.
  - eapply iprim_grows; eassumption.
  - unfold popped. eapply grows_trans with (s2 := pop_state m rest s); [apply grows_same; reflexivity|].
    apply grows_upd. intros ev _. apply ev_le_set_cbs_none.
  - apply grows_cond_check.
  - apply grows_cond_build.
Qed.

Lemma steps_grows s s' : steps s s' -> grows s s'.
Proof. apply steps_ind_rel; [apply grows_refl|apply grows_trans|apply prim_grows]. Qed.

(* every process has a Process event *)
Definition procs_wf (s : state) : Prop :=
  forall p pr, get_proc p s = Some pr -> exists ev q, get_event (pev pr) s = Some ev /\ kind ev = KProcess q.

Lemma kind_le_process k k' q : kind_le k k' -> k = KProcess q -> k' = KProcess q.
Proof. intros [->|(a & o & n & n' & -> & _)] E; [exact E|discriminate]. Qed.

Lemma grows_kproc s s' e ev q :
  grows s s' -> get_event e s = Some ev -> kind ev = KProcess q -> exists ev', get_event e s' = Some ev' /\ kind ev' = KProcess q.
Proof.
  intros [G _] H K. destruct (G _ _ H) as (ev' & H' & L & _). exists ev'. split; [exact H'|].
  eapply kind_le_process; eassumption.
Qed.

Lemma procs_cond_check c o s : procs (cond_check c o s) = procs s.
Proof.
  unfold cond_check.
  destruct (get_event c s); [|reflexivity]. destruct (get_event o s); [|reflexivity].
  destruct (out e); [reflexivity|]. destruct (kind e); try reflexivity.
  destruct (out e0) as [[?|?]|]; [destruct (cond_evaluate _ _ _)| |destruct (cond_evaluate _ _ _)]; reflexivity.
Qed.

Lemma procs_remove_check_from c o s : procs (remove_check_from c o s) = procs s.
Proof.
  unfold remove_check_from. destruct (get_event o s); [|reflexivity]. destruct (cbs e); [|reflexivity].
  destruct (mem_cb _ _); reflexivity.
Qed.

Lemma procs_remove_checks fuel : forall c s s', remove_checks fuel c s = Some s' -> procs s' = procs s.
Proof.
  induction fuel as [|f IH]; intros c0 s0 s0'; cbn [remove_checks]; [discriminate|].
  destruct (get_event c0 s0); [|discriminate].
  destruct (kind e); try (intros H; injection H as <-; reflexivity).
  generalize s0 s0'. clear s0 s0'. induction ops as [|o t IHo]; intros s0 s0'; cbn [remove_ops].
  - intros H; injection H as <-. reflexivity.
  - pose proof (procs_remove_check_from c0 o s0) as RC.
    destruct (get_event o s0); [|discriminate]. destruct (is_cond e0).
    + destruct (remove_checks f o (remove_check_from c0 o s0)) as [s2|] eqn:R2; [|discriminate].
      intros H. rewrite (IHo _ _ H), (IH _ _ _ R2). exact RC.
    + intros H. rewrite (IHo _ _ H). exact RC.
Qed.

Lemma procs_cond_build c s : procs (fst (cond_build c s)) = procs s.
Proof.
  unfold cond_build. destruct (remove_checks (S c) c s) as [s1|] eqn:R1; [|reflexivity].
  pose proof (procs_remove_checks _ _ _ _ R1) as E1.
  destruct (get_event c s1); [|exact E1]. destruct (out e) as [[?|?]|]; try exact E1.
  destruct (kind e); try exact E1. destruct (populate _ _ _); exact E1.
Qed.

Lemma procs_cond_subscribe c ops : forall s, procs (cond_subscribe c ops s) = procs s.
Proof.
  induction ops as [|o t IH]; intros s0; cbn [cond_subscribe]; [reflexivity|].
  rewrite IH. destruct (get_event o s0); [|reflexivity]. destruct (is_processed e); [|reflexivity].
  apply procs_cond_check.
Qed.

Lemma procs_call_cond all es s : procs (fst (call_cond all es s)) = procs s.
Proof.
  unfold call_cond. destruct (negb (all_valid es s)); [reflexivity|].
  rewrite (new_event_eq _ s). cbv beta iota.
  destruct es as [|e0 t]; cbn [fst]; [reflexivity|].
  unfold add_callback, upd_event. cbn [procs set_events]. rewrite procs_cond_subscribe. reflexivity.
Qed.

Lemma prim_procs_wf x s s' : prim x s s' -> procs_wf s -> procs_wf s'.
Proof.
  intros P W. pose proof (prim_grows _ _ _ P) as G.
  assert (Gen : procs s' = procs s -> procs_wf s').
  { intros E p pr H. unfold get_proc in H. rewrite E in H. destruct (W _ _ H) as (ev & q & A & B).
    destruct (grows_kproc _ _ _ _ _ G A B) as (ev' & A' & B'). exists ev', q. auto. }
  destruct P as [x s s' P| | |]; [destruct P|..]; try (apply Gen; reflexivity).
  - apply Gen. apply H.
  - (* p_procs *)
    destruct H as [H1 H2]. intros p pr Hp. unfold get_proc in Hp. cbn in Hp.
    destruct (nth_error (procs s) p) as [pr0|] eqn:E0.
    + destruct (H1 _ _ E0) as (pr' & A & B). rewrite A in Hp. injection Hp as <-.
      destruct (W _ _ E0) as (ev & q & C & D). rewrite B. exists ev, q. split; [exact C|exact D].
    + destruct (H2 _ _ Hp E0) as (ev & q & C & D). exists ev, q. split; [exact C|exact D].
  - apply Gen, procs_call_cond.
  - apply Gen, procs_cond_check.
  - apply Gen, procs_cond_build.
Qed.

Lemma steps_procs_wf s s' : steps s s' -> procs_wf s -> procs_wf s'.
Proof.
  intros [X H]. induction H as [|x X s s1 s2 P T IH]; [auto|]. intros W. apply IH. eapply prim_procs_wf; eassumption.
Qed.

(* ------------------------------------------------------------------------------------------------ *)
(* executions: API calls (labelled with the event they explicitly trigger, if any) and kernel primitives *)

Definition trig_of (k : call) (s : state) : list evid :=
  match k with
  | CSucceed e _ => match get_event e s with
                    | Some ev => if is_triggered ev then [] else [e]
                    | None => []
                    end
  | CFail e (VExn _ _) => match get_event e s with
                          | Some ev => if is_triggered ev then [] else [e]
                          | None => []
                          end
  | _ => []
  end.

Inductive xstep (codes : list prog) : list evid -> state -> state -> Prop :=
| xs_call k s : xstep codes (trig_of k s) s (fst (do_call codes k s))
| xs_prim s s' : iprim None s s' -> xstep codes [] s s'.

Inductive xtrace (codes : list prog) : list evid -> state -> state -> Prop :=
| xt_nil s : xtrace codes [] s s
| xt_cons X1 X2 s s1 s2 : xstep codes X1 s s1 -> xtrace codes X2 s1 s2 -> xtrace codes (X1 ++ X2) s s2.

Lemma xt_app codes X1 X2 s s1 s2 : xtrace codes X1 s s1 -> xtrace codes X2 s1 s2 -> xtrace codes (X1 ++ X2) s s2.
Proof.
  induction 1 as [|Y1 Y2 s s1' s2' P T IH]; intros H2; [exact H2|].
  rewrite <- app_assoc. econstructor; [exact P|apply IH, H2].
Qed.

Definition xsteps (codes : list prog) (s s' : state) : Prop := exists X, xtrace codes X s s'.

Lemma xsteps_refl codes s : xsteps codes s s. Proof. exists []. constructor. Qed.
Lemma xsteps_trans codes s s1 s2 : xsteps codes s s1 -> xsteps codes s1 s2 -> xsteps codes s s2.
Proof. intros [X1 H1] [X2 H2]. exists (X1 ++ X2). eapply xt_app; eassumption. Qed.
Lemma xsteps_prim codes s s' : iprim None s s' -> xsteps codes s s'.
Proof. intros H. exists ([] ++ []). econstructor; [apply xs_prim, H|constructor]. Qed.
Lemma xsteps_call codes k s : xsteps codes s (fst (do_call codes k s)).
Proof. exists (trig_of k s ++ []). econstructor; [apply xs_call|constructor]. Qed.

(* ---- an API call is a sequence of primitives with the same label ---- *)

Lemma call_query_state q e s : fst (call_query q e s) = s.
Proof.
  unfold call_query. destruct (get_event e s) as [ev|]; [|reflexivity].
  destruct q; try reflexivity.
  - destruct (out ev) as [[?|?]|]; reflexivity.
  - destruct (raw_value ev); reflexivity.
  - destruct (kind ev); reflexivity.
Qed.

Lemma pt_trigger_ext e ev o s :
  get_event e s = Some ev -> out ev = None -> iptrace [e] s (trigger_event e o s).
Proof.
  intros H O. unfold trigger_event. change [e] with (lab (Some e) ++ lab None ++ []).
  econstructor; [eapply p_trig; eassumption|]. econstructor; [|constructor].
  eapply p_sched; [apply get_upd_same, H|]. cbn. discriminate.
Qed.

Lemma plain_nil_cbs k : (match k with KCond _ _ _ => False | _ => True end) -> forall o d, plain_new (mkEvent (Some []) o d k).
Proof. intros K o d. split; [exists []; split; [reflexivity|intros c []]|exact K]. Qed.

Lemma do_call_ptrace codes k s : iptrace (trig_of k s) s (fst (do_call codes k s)).
Proof.
  destruct k; cbn [do_call trig_of].
  - (* timeout *)
    unfold call_timeout. destruct (neg_delay d); [constructor|].
    set (EV := mkEvent (Some []) (Some (Ok v)) false KTimeout).
    rewrite (new_event_eq EV s). cbv beta iota. cbn [fst].
    change (@nil evid) with (lab None ++ lab None ++ []).
    econstructor; [apply (p_new EV s), plain_nil_cbs, I|]. econstructor; [|constructor].
    eapply p_sched; [apply get_new_new|]. cbn. discriminate.
  - (* event *)
    unfold call_event. set (EV := mkEvent (Some []) None false KPlain).
    rewrite (new_event_eq EV s). cbv beta iota. cbn [fst].
    apply (@pt_one iprim None), p_new, plain_nil_cbs, I.
  - (* succeed *)
    unfold call_succeed. destruct (get_event e s) as [ev|] eqn:H; [|constructor].
    unfold is_triggered. destruct (out ev) eqn:O; [constructor|]. cbn [fst].
    eapply pt_trigger_ext; eassumption.
  - (* fail *)
    unfold call_fail. destruct (get_event e s) as [ev|] eqn:H; [|destruct x; constructor].
    unfold is_triggered. destruct (out ev) eqn:O; [destruct x; constructor|].
    destruct x; try constructor. cbn [fst]. eapply pt_trigger_ext; eassumption.
  - (* spawn *)
    unfold call_spawn. destruct (nth_error codes code) as [pr|]; [|constructor].
    set (p := length (procs s)).
    set (EV1 := mkEvent (Some []) None false (KProcess p)).
    rewrite (new_event_eq EV1 s). cbv beta iota.
    set (s1 := snd (new_event EV1 s)).
    set (EV2 := mkEvent (Some [CbResume p]) (Some (Ok VNone)) false (KInit p)).
    rewrite (new_event_eq EV2 s1). cbv beta iota. cbn [fst].
    set (s2 := snd (new_event EV2 s1)).
    assert (PN2 : plain_new EV2).
    { split; [exists [CbResume p]; split; [reflexivity|intros c [<-|[]]; exact I]|exact I]. }
    change (@nil evid) with (lab None ++ lab None ++ lab None ++ lab None ++ []).
    econstructor; [apply (p_new EV1 s), plain_nil_cbs, I|]. econstructor; [apply (p_new EV2 s1), PN2|].
    econstructor; [eapply p_sched; [apply get_new_new|cbn; discriminate]|].
    econstructor; [|constructor].
    apply p_procs. split.
    + intros q pr0 Hq. exists pr0. split; [|reflexivity].
      change (procs (schedule (length (events s1)) URGENT 0 s2)) with (procs s) in *.
      rewrite nth_error_app1; [exact Hq|]. apply nth_error_Some. congruence.
    + intros q pr0 Hq Hn. change (procs (schedule (length (events s1)) URGENT 0 s2)) with (procs s) in Hq, Hn.
      apply nth_error_None in Hn. rewrite nth_error_app2 in Hq by exact Hn.
      destruct (q - length (procs s))%nat as [|j]; [|destruct j; discriminate]. cbn in Hq. injection Hq as <-.
      cbn [pev]. exists EV1, p. split; [|reflexivity].
      change (get_event (length (events s)) s2 = Some EV1). unfold s2.
      rewrite get_new_old by (unfold s1; rewrite new_event_length; lia). apply get_new_new.
  - (* interrupt *)
    unfold call_interrupt. destruct (get_event e s) as [ev|]; [|constructor].
    destruct (kind ev); try constructor.
    destruct (is_triggered ev); [constructor|].
    destruct (match active s with Some a => Nat.eqb a p | None => false end); [constructor|].
    set (EV := mkEvent (Some [CbInterrupt (length (events s))]) (Some (Fail (EInterrupt, [cause]))) true (KInterruption p)).
    assert (PN : plain_new EV).
    { split; [exists [CbInterrupt (length (events s))]; split; [reflexivity|intros c [<-|[]]; exact I]|exact I]. }
    rewrite (new_event_eq EV s). cbv beta iota. cbn [fst].
    change (@nil evid) with (lab None ++ lab None ++ []).
    econstructor; [apply (p_new EV s), PN|]. econstructor; [|constructor].
    eapply p_sched; [apply get_new_new|cbn; discriminate].
  - (* all_of *)
    destruct (all_valid es s) eqn:V.
    + apply (@pt_one iprim None). apply p_cond, V.
    + unfold call_cond. rewrite V. constructor.
  - destruct (all_valid es s) eqn:V.
    + apply (@pt_one iprim None). apply p_cond, V.
    + unfold call_cond. rewrite V. constructor.
  - (* probe *)
    unfold call_probe. destruct (get_event e s) as [ev|]; [|constructor].
    destruct (is_processed ev); [constructor|]. apply (@pt_one iprim None). apply p_addcb. exact I.
  - rewrite call_query_state. constructor.
  - constructor.
  - constructor.
  - apply (@pt_one iprim None). apply p_frame. repeat split.
  - constructor.
  - apply (@pt_one iprim None). apply p_frame. repeat split.
Qed.

Lemma xstep_iptrace codes X s s' : xstep codes X s s' -> iptrace X s s'.
Proof. intros [k s0|s0 s0' P]; [apply do_call_ptrace|apply (@pt_one iprim None), P]. Qed.

Lemma xtrace_iptrace codes X s s' : xtrace codes X s s' -> iptrace X s s'.
Proof. induction 1 as [|X1 X2 s s1 s2 P T IH]; [constructor|]. eapply pt_app; [eapply xstep_iptrace, P|exact IH]. Qed.

Lemma xtrace_ptrace codes X s s' : xtrace codes X s s' -> ptrace X s s'.
Proof. intros H. eapply ltrace_mono; [|eapply xtrace_iptrace, H]. intros; apply p_inner; assumption. Qed.

Lemma xsteps_steps codes s s' : xsteps codes s s' -> steps s s'.
Proof. intros [X H]. exists X. eapply xtrace_ptrace, H. Qed.

(* ---- composite functions ---- *)

Lemma xs_run_frag {A} codes (f : frag A) : forall s, xsteps codes s (fst (run_frag codes f s)).
Proof.
  induction f as [v a|v|x|c k IH]; intros s; cbn [run_frag fst]; try apply xsteps_refl.
  pose proof (xsteps_call codes c s) as X. destruct (do_call codes c s) as [s1 o]. cbn [fst] in X.
  eapply xsteps_trans; [exact X|apply IH].
Qed.

Lemma xs_trigger_proc codes e ev q o s :
  get_event e s = Some ev -> kind ev = KProcess q -> xsteps codes s (trigger_event e o s).
Proof.
  intros H K. unfold trigger_event. eapply xsteps_trans; [eapply xsteps_prim, p_ptrig; eassumption|].
  eapply xsteps_prim, p_sched; [apply get_upd_same, H|cbn; discriminate].
Qed.

Lemma procs_ok_upd p f s :
  (forall pr, get_proc p s = Some pr -> pev (f pr) = pev pr) -> procs_ok s (upd_nth p f (procs s)).
Proof.
  intros Hf. split.
  - intros q pr Hq. rewrite nth_upd_nth. destruct (Nat.eqb q p) eqn:E.
    + apply Nat.eqb_eq in E. subst q. rewrite Hq. cbn. exists (f pr). split; [reflexivity|apply Hf, Hq].
    + exists pr. auto.
  - intros q pr Hq Hn. rewrite nth_upd_nth in Hq. rewrite Hn in Hq. destruct (Nat.eqb q p); discriminate.
Qed.

Lemma xs_upd_proc codes p f s :
  (forall pr, get_proc p s = Some pr -> pev (f pr) = pev pr) -> xsteps codes s (upd_proc p f s).
Proof. intros Hf. apply xsteps_prim, p_procs, procs_ok_upd, Hf. Qed.

Lemma xs_set_active codes a s : xsteps codes s (set_active a s).
Proof. apply xsteps_prim, p_frame. repeat split. Qed.

Lemma xs_proc_finish codes p pr o s ev q :
  get_event (pev pr) s = Some ev -> kind ev = KProcess q -> xsteps codes s (proc_finish p pr o s).
Proof.
  intros H K. unfold proc_finish. eapply xsteps_trans; [eapply xs_trigger_proc; eassumption|].
  eapply xsteps_trans; [apply (xs_upd_proc codes p (proc_set_target None)); intros; reflexivity|apply xs_set_active].
Qed.

Lemma xs_proc_wait codes p e s : xsteps codes s (proc_wait p e s).
Proof.
  unfold proc_wait. eapply xsteps_trans; [apply xsteps_prim, (p_addcb e (CbResume p) s); exact I|].
  eapply xsteps_trans; [apply (xs_upd_proc codes p (proc_set_target (Some e))); intros; reflexivity|apply xs_set_active].
Qed.

Lemma xs_resume_loop codes fuel : forall p e s, procs_wf s -> xsteps codes s (fst (resume_loop fuel codes p e s)).
Proof.
  induction fuel as [|f IH]; intros p e s W; cbn [resume_loop]; [apply xsteps_refl|].
  destruct (get_event e s) as [ev|]; [|apply xsteps_refl].
  destruct (get_proc p s) as [pr|] eqn:Hp; [|apply xsteps_refl].
  destruct (out ev) as [o|]; [|apply xsteps_refl].
  set (s1 := match o with Fail _ => upd_event e ev_set_defused s | Ok _ => s end).
  assert (E1 : xsteps codes s s1) by (subst s1; destruct o; [apply xsteps_refl|apply xsteps_prim, p_defuse]).
  pose proof (xs_run_frag codes (resume (pcode pr) (pst pr) o) s1) as E2.
  destruct (run_frag codes (resume (pcode pr) (pst pr) o) s1) as [s2 r]. cbn [fst] in E2.
  assert (E12 : xsteps codes s s2) by (eapply xsteps_trans; eassumption).
  pose proof (steps_grows _ _ (xsteps_steps _ _ _ E12)) as G.
  pose proof (steps_procs_wf _ _ (xsteps_steps _ _ _ E12) W) as W2.
  destruct (proj2 G _ _ Hp) as (pr2 & Hp2 & Pev2).
  destruct (W2 _ _ Hp2) as (pe & q & Hpe & Kpe). rewrite Pev2 in Hpe.
  destruct r as [v a|v|x].
  - assert (E3 : xsteps codes s2 (put_proc p (proc_set_st pr a) s2)).
    { apply xs_upd_proc. intros pr0 H0. rewrite Hp2 in H0. injection H0 as <-. cbn. symmetry. exact Pev2. }
    assert (E13 : xsteps codes s (put_proc p (proc_set_st pr a) s2)) by (eapply xsteps_trans; eassumption).
    destruct v; try exact E13.
    destruct (get_event e0 (put_proc p (proc_set_st pr a) s2)) as [ev'|]; [|exact E13].
    destruct (is_processed ev').
    + eapply xsteps_trans; [exact E13|]. apply IH. eapply steps_procs_wf; [eapply xsteps_steps, E13|exact W].
    + cbn [fst]. eapply xsteps_trans; [exact E13|apply xs_proc_wait].
  - cbn [fst]. eapply xsteps_trans; [exact E12|]. eapply xs_proc_finish; eassumption.
  - cbn [fst]. eapply xsteps_trans; [exact E12|]. eapply xs_proc_finish; eassumption.
Qed.

Lemma procs_wf_frame s s' : events s' = events s -> procs s' = procs s -> procs_wf s -> procs_wf s'.
Proof. intros E P W p pr H. unfold get_proc, get_event in *. rewrite P in H. rewrite E. apply (W _ _ H). Qed.

Lemma xs_resume_proc codes fuel p e s : procs_wf s -> xsteps codes s (fst (resume_proc fuel codes p e s)).
Proof.
  intros W. unfold resume_proc. eapply xsteps_trans; [apply xs_set_active|]. apply xs_resume_loop.
  eapply procs_wf_frame; [| |exact W]; reflexivity.
Qed.

Lemma xs_do_interruption codes fuel i s : procs_wf s -> xsteps codes s (fst (do_interruption fuel codes i s)).
Proof.
  intros W. unfold do_interruption.
  destruct (get_event i s) as [iev|]; [|apply xsteps_refl].
  destruct (kind iev); try apply xsteps_refl.
  destruct (get_proc p s) as [pr|]; [|apply xsteps_refl].
  destruct (get_event (pev pr) s) as [pe|]; [|apply xsteps_refl].
  destruct (is_triggered pe); [apply xsteps_refl|].
  destruct (ptarget pr) as [t|]; [|apply xsteps_refl].
  destruct (get_event t s) as [tev|] eqn:Ht; [|apply xsteps_refl].
  destruct (cbs tev) as [l|] eqn:Cl; [|apply xsteps_refl].
  destruct (mem_cb (CbResume p) l); [|apply xsteps_refl].
  assert (P1 : iprim None s (upd_event t (ev_set_cbs (Some (remove_first (CbResume p) l))) s)).
  { eapply p_rmcb; [exact Ht|exact Cl|exact I]. }
  eapply xsteps_trans; [apply xsteps_prim, P1|]. apply xs_resume_proc.
  eapply prim_procs_wf; [apply p_inner, P1|exact W].
Qed.

Lemma stop_cb_state e s : fst (stop_cb e s) = s.
Proof. unfold stop_cb. destruct (get_event e s) as [ev|]; [|reflexivity]. destruct (out ev) as [[?|?]|]; reflexivity. Qed.

Definition processed_in (e : evid) (s : state) : Prop := exists ev, get_event e s = Some ev /\ cbs ev = None.

Lemma grows_processed s s' e : grows s s' -> processed_in e s -> processed_in e s'.
Proof. intros [G _] (ev & H & C). destruct (G _ _ H) as (ev' & H' & _ & L & _). exists ev'. auto. Qed.

(* ---- whole executions: program activity, pops, _check and _build_value callbacks ---- *)

Inductive estep (codes : list prog) : list evid -> state -> state -> Prop :=
| es_x X s s' : xtrace codes X s s' -> estep codes X s s'
| es_pop m rest s : pop_min (agenda s) = Some (m, rest) -> estep codes [] s (popped m rest s)
| es_check c o oev s : get_event o s = Some oev -> cbs oev = None -> opnd s c o -> estep codes [] s (cond_check c o s)
| es_build c s : estep codes [] s (fst (cond_build c s)).

Inductive etrace (codes : list prog) : list evid -> state -> state -> Prop :=
| et_nil s : etrace codes [] s s
| et_cons X1 X2 s s1 s2 : estep codes X1 s s1 -> etrace codes X2 s1 s2 -> etrace codes (X1 ++ X2) s s2.

Lemma et_app codes X1 X2 s s1 s2 : etrace codes X1 s s1 -> etrace codes X2 s1 s2 -> etrace codes (X1 ++ X2) s s2.
Proof.
  induction 1 as [|Y1 Y2 s s1' s2' P T IH]; intros H2; [exact H2|].
  rewrite <- app_assoc. econstructor; [exact P|apply IH, H2].
Qed.

Definition esteps (codes : list prog) (s s' : state) : Prop := exists X, etrace codes X s s'.

Lemma esteps_refl codes s : esteps codes s s. Proof. exists []. constructor. Qed.
Lemma esteps_trans codes s s1 s2 : esteps codes s s1 -> esteps codes s1 s2 -> esteps codes s s2.
Proof. intros [X1 H1] [X2 H2]. exists (X1 ++ X2). eapply et_app; eassumption. Qed.
Lemma esteps_one codes X s s' : estep codes X s s' -> esteps codes s s'.
Proof. intros H. exists (X ++ []). econstructor; [exact H|constructor]. Qed.
Lemma esteps_x codes s s' : xsteps codes s s' -> esteps codes s s'.
Proof. intros [X H]. eapply esteps_one, es_x, H. Qed.

Lemma estep_ptrace codes X s s' : estep codes X s s' -> ptrace X s s'.
Proof.
  intros [X0 s0 s0' H|m rest s0 H|c o oev s0 H1 H2 H3|c s0].
  - eapply xtrace_ptrace, H.
  - apply (@pt_one prim None), p_pop, H.
  - apply (@pt_one prim None). eapply p_check; eassumption.
  - apply (@pt_one prim None), p_build.
Qed.

Lemma etrace_ptrace codes X s s' : etrace codes X s s' -> ptrace X s s'.
Proof. induction 1 as [|X1 X2 s s1 s2 P T IH]; [constructor|]. eapply pt_app; [eapply estep_ptrace, P|exact IH]. Qed.

Lemma esteps_steps codes s s' : esteps codes s s' -> steps s s'.
Proof. intros [X H]. exists X. eapply etrace_ptrace, H. Qed.

Lemma upd_nth_id {A} (f : A -> A) n l : (forall x, nth_error l n = Some x -> f x = x) -> upd_nth n f l = l.
Proof.
  revert n. induction l as [|y t IH]; intros [|n] H; cbn; try reflexivity.
  - rewrite (H y); reflexivity.
  - rewrite IH; [reflexivity|exact H].
Qed.

Lemma upd_event_id e f s : (forall ev, get_event e s = Some ev -> f ev = ev) -> upd_event e f s = s.
Proof. intros H. unfold upd_event. rewrite upd_nth_id by exact H. destruct s; reflexivity. Qed.

Lemma step_unfold fuel codes s s' r :
  step fuel codes s = (s', r) ->
  (pop_min (agenda s) = None /\ s' = s /\ r = REmpty) \/
  exists m rest, pop_min (agenda s) = Some (m, rest) /\
    ((get_event (e_ev m) s = None /\ s' = popped m rest s /\ r = RBroken) \/
     (exists ev, get_event (e_ev m) s = Some ev /\ cbs ev = None /\ s' = popped m rest s /\
                 r = RRaise (kexn EType M_none_not_iterable)) \/
     (exists ev l r2, get_event (e_ev m) s = Some ev /\ cbs ev = Some l /\
                      run_callbacks fuel codes (e_ev m) l (popped m rest s) = (s', r2) /\
                      r = match r2 with ROk => check_failure (e_ev m) s' | _ => r2 end)).
Proof.
  unfold step. destruct (pop_min (agenda s)) as [[m rest]|]; [|intros H; injection H as <- <-; left; auto].
  intros H. right. exists m, rest. split; [reflexivity|].
  change (get_event (e_ev m) (pop_state m rest s)) with (get_event (e_ev m) s) in H.
  destruct (get_event (e_ev m) s) as [ev|] eqn:He.
  - destruct (cbs ev) as [l|] eqn:Cl.
    + right. right. fold (popped m rest s) in H.
      destruct (run_callbacks fuel codes (e_ev m) l (popped m rest s)) as [s2 r2] eqn:R.
      exists ev, l, r2. split; [reflexivity|]. split; [exact Cl|].
      destruct r2; injection H as <- <-; auto.
    + right. left. exists ev. injection H as <- <-. split; [reflexivity|]. split; [exact Cl|]. split; [|reflexivity].
      unfold popped. symmetry. apply upd_event_id. intros ev0 H0.
      change (get_event (e_ev m) (pop_state m rest s)) with (get_event (e_ev m) s) in H0.
      rewrite He in H0. injection H0 as <-. destruct ev; cbn in *. subst. reflexivity.
  - left. injection H as <- <-. split; [reflexivity|]. split; [|reflexivity]. unfold popped. symmetry. apply upd_event_id.
    intros ev0 H0. change (get_event (e_ev m) (pop_state m rest s)) with (get_event (e_ev m) s) in H0. congruence.
Qed.

Lemma popped_processed m rest s ev : get_event (e_ev m) s = Some ev -> processed_in (e_ev m) (popped m rest s).
Proof.
  intros H. exists (ev_set_cbs None ev). split; [|reflexivity]. unfold popped. apply get_upd_same. exact H.
Qed.

Lemma xs_run_prelude codes u s s1 : run_prelude u s = inr s1 -> xsteps codes s s1.
Proof.
  destruct u as [|t|e]; cbn [run_prelude].
  - intros H; injection H as <-. apply xsteps_refl.
  - destruct (Qle_bool t (now s)); [discriminate|].
    set (EV := mkEvent (Some []) (Some (Ok VNone)) false KSentinel).
    rewrite (new_event_eq EV s). cbv beta iota. intros H; injection H as <-.
    eapply xsteps_trans; [apply xsteps_prim, (p_new EV s), plain_nil_cbs, I|].
    eapply xsteps_trans; [eapply xsteps_prim, p_sched; [apply get_new_new|cbn; discriminate]|].
    apply xsteps_prim, p_addcb. exact I.
  - destruct (get_event e s) as [ev|]; [|discriminate].
    destruct (is_processed ev); [discriminate|]. intros H; injection H as <-. apply xsteps_prim, p_addcb. exact I.
Qed.

Lemma run_prelude_inl u s s' r : run_prelude u s = inl (s', r) -> s' = s.
Proof.
  destruct u as [|t|e]; cbn [run_prelude]; [discriminate| |].
  - destruct (Qle_bool t (now s)); [intros H; injection H as <- _; reflexivity|].
    destruct (new_event _ s); discriminate.
  - destruct (get_event e s) as [ev|]; [|intros H; injection H as <- _; reflexivity].
    destruct (is_processed ev); [intros H; injection H as <- _; reflexivity|discriminate].
Qed.

(* ------------------------------------------------------------------------------------------------ *)
(* reachable states: from an initial state, through module-level code, run(), step() -- any program *)

Lemma procs_wf_init t0 : procs_wf (init_state t0).
Proof. intros p pr H. unfold get_proc in H. cbn in H. destruct p; discriminate. Qed.

(* every state an execution passes through (also in the middle of a step), with the events X that received
   an explicit succeed / fail *)
Definition reach (codes : list prog) (X : list evid) (s : state) : Prop :=
  exists t0, etrace codes X (init_state t0) s.

Lemma reach_procs_wf codes X s : reach codes X s -> procs_wf s.
Proof. intros (t0 & H). eapply steps_procs_wf; [exists X; eapply etrace_ptrace, H|apply procs_wf_init]. Qed.

Lemma reach_init codes t0 : reach codes [] (init_state t0).
Proof. exists t0. constructor. Qed.

Lemma reach_esteps codes X s s' : reach codes X s -> esteps codes s s' -> exists X', reach codes (X ++ X') s'.
Proof. intros (t0 & H) (X' & H'). exists X', t0. eapply et_app; eassumption. Qed.

Lemma reach_exec_top {A} codes X (f : frag A) s : reach codes X s -> exists X', reach codes (X ++ X') (fst (exec_top codes f s)).
Proof. intros R. eapply reach_esteps; [exact R|apply esteps_x, xs_run_frag]. Qed.

