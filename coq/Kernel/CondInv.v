(* Kernel/CondInv.v -- C05 (conditions), part 2: invariants.

   [cinv X s]     state invariant preserved by every primitive (hence true in every state of every execution
                  of every program, also in the middle of a step); X = the events that received an explicit
                  succeed/fail.  Clauses: agenda entries are triggered events; operands are older than their
                  condition; processed => triggered; where _check / _build_value callbacks sit; a pending
                  condition's predicate is false; a triggered condition (not in X) is justified.
   [binv l e s]   the counting invariant, relative to the callbacks [l] of the popped event [e] that are still
                  to run: count + (checks in flight) <= processed operand positions, with equality, full
                  subscription and "no processed operand has failed" for pending conditions that have not been
                  detached by an enclosing condition.  [binv [] e s] is the invariant at step boundaries. *)
From Coq Require Import ZArith QArith List Bool Lia.
From ONL Require Import Kernel.Model Kernel.Keys Kernel.Cond.
Import ListNotations.

(* ------------------------------------------------------------------------------------------------ *)
(* counting *)

Definition cbcount (c : cb) (l : list cb) : nat := length (filter (cb_eqb c) l).
Definition occ (o : evid) (ops : list evid) : nat := length (filter (Nat.eqb o) ops).
Definition is_proc (s : state) (o : evid) : bool :=
  match get_event o s with Some ev => is_processed ev | None => false end.
Definition procpos (s : state) (ops : list evid) : nat := length (filter (is_proc s) ops).

Lemma cb_eqb_eq a b : cb_eqb a b = true <-> a = b.
Proof.
  destruct a, b; cbn; try (split; [intros H; discriminate H|intros H; discriminate H]); try (split; reflexivity);
    rewrite Nat.eqb_eq; (split; [intros ->; reflexivity|intros H; injection H; auto]).
Qed.
Lemma cb_eqb_refl a : cb_eqb a a = true. Proof. apply cb_eqb_eq. reflexivity. Qed.
Lemma cb_eqb_neq a b : cb_eqb a b = false <-> a <> b.
Proof. rewrite <- cb_eqb_eq. destruct (cb_eqb a b); split; congruence. Qed.

Lemma cbcount_app c l1 l2 : cbcount c (l1 ++ l2) = (cbcount c l1 + cbcount c l2)%nat.
Proof. unfold cbcount. rewrite filter_app, app_length. reflexivity. Qed.
Lemma cbcount_cons c d l : cbcount c (d :: l) = ((if cb_eqb c d then 1 else 0) + cbcount c l)%nat.
Proof. unfold cbcount. cbn. destruct (cb_eqb c d); reflexivity. Qed.
Lemma cbcount_nil c : cbcount c [] = 0%nat. Proof. reflexivity. Qed.

Lemma cbcount_in c l : In c l <-> (0 < cbcount c l)%nat.
Proof.
  induction l as [|d t IH]; [cbn; split; [tauto|lia]|]. rewrite cbcount_cons. cbn [In].
  destruct (cb_eqb c d) eqn:E.
  - apply cb_eqb_eq in E. subst d. split; [lia|auto].
  - apply cb_eqb_neq in E. rewrite IH. split; [intros [H|H]; [congruence|lia]|intros H; right; lia].
Qed.
Lemma cbcount_notin c l : ~ In c l <-> cbcount c l = 0%nat.
Proof. rewrite cbcount_in. lia. Qed.

Lemma cbcount_remove_other c d l : c <> d -> cbcount c (remove_first d l) = cbcount c l.
Proof.
  intros N. induction l as [|x t IH]; [reflexivity|]. cbn [remove_first].
  destruct (cb_eqb x d) eqn:E.
  - apply cb_eqb_eq in E. subst x. rewrite cbcount_cons. apply cb_eqb_neq in N. rewrite N. reflexivity.
  - rewrite !cbcount_cons, IH. reflexivity.
Qed.
Lemma cbcount_remove_same c l : cbcount c (remove_first c l) = pred (cbcount c l).
Proof.
  induction l as [|x t IH]; [reflexivity|]. cbn [remove_first].
  destruct (cb_eqb x c) eqn:E.
  - apply cb_eqb_eq in E. subst x. rewrite cbcount_cons, cb_eqb_refl. reflexivity.
  - rewrite !cbcount_cons, IH. assert (E' : cb_eqb c x = false).
    { apply cb_eqb_neq. apply cb_eqb_neq in E. congruence. } rewrite E'. reflexivity.
Qed.
Lemma mem_cb_in c l : mem_cb c l = true <-> In c l.
Proof.
  unfold mem_cb. rewrite existsb_exists. split.
  - intros (x & H & E). apply cb_eqb_eq in E. subst x. exact H.
  - intros H. exists c. split; [exact H|apply cb_eqb_refl].
Qed.

Lemma occ_cons o x t : occ o (x :: t) = ((if Nat.eqb o x then 1 else 0) + occ o t)%nat.
Proof. unfold occ. cbn. destruct (Nat.eqb o x); reflexivity. Qed.
Lemma occ_app o l1 l2 : occ o (l1 ++ l2) = (occ o l1 + occ o l2)%nat.
Proof. unfold occ. rewrite filter_app, app_length. reflexivity. Qed.
Lemma occ_in o ops : In o ops <-> (0 < occ o ops)%nat.
Proof.
  induction ops as [|x t IH]; [cbn; split; [tauto|lia]|]. rewrite occ_cons. cbn [In].
  destruct (Nat.eqb o x) eqn:E.
  - apply Nat.eqb_eq in E. subst x. split; [lia|auto].
  - apply Nat.eqb_neq in E. rewrite IH. split; [intros [H|H]; [congruence|lia]|intros H; right; lia].
Qed.
Lemma occ_notin o ops : ~ In o ops -> occ o ops = 0%nat.
Proof. rewrite occ_in. lia. Qed.

Lemma procpos_cons s o t : procpos s (o :: t) = ((if is_proc s o then 1 else 0) + procpos s t)%nat.
Proof. unfold procpos. cbn. destruct (is_proc s o); reflexivity. Qed.
Lemma procpos_app s l1 l2 : procpos s (l1 ++ l2) = (procpos s l1 + procpos s l2)%nat.
Proof. unfold procpos. rewrite filter_app, app_length. reflexivity. Qed.
Lemma procpos_le_length s ops : (procpos s ops <= length ops)%nat.
Proof. induction ops as [|o t IH]; [cbn; lia|]. rewrite procpos_cons. cbn [length]. destruct (is_proc s o); lia. Qed.
Lemma procpos_ext s s' ops : (forall o, In o ops -> is_proc s' o = is_proc s o) -> procpos s' ops = procpos s ops.
Proof.
  induction ops as [|o t IH]; intros H; [reflexivity|]. rewrite !procpos_cons, H by (left; reflexivity).
  rewrite IH; [reflexivity|]. intros; apply H; right; assumption.
Qed.
Lemma procpos_mono s s' ops : (forall o, In o ops -> is_proc s o = true -> is_proc s' o = true) -> (procpos s ops <= procpos s' ops)%nat.
Proof.
  induction ops as [|o t IH]; intros H; [cbn; lia|]. rewrite !procpos_cons.
  assert (IH' := IH (fun o' Ho => H o' (or_intror Ho))).
  destruct (is_proc s o) eqn:E; [rewrite (H o (or_introl eq_refl) E); lia|destruct (is_proc s' o); lia].
Qed.
(* one more event becomes processed *)
Lemma procpos_pop s s' e ops :
  is_proc s e = false -> is_proc s' e = true -> (forall o, o <> e -> is_proc s' o = is_proc s o) ->
  procpos s' ops = (procpos s ops + occ e ops)%nat.
Proof.
  intros H0 H1 Ho. induction ops as [|o t IH]; [reflexivity|]. rewrite !procpos_cons, occ_cons, IH.
  destruct (Nat.eqb e o) eqn:E.
  - apply Nat.eqb_eq in E. subst o. rewrite H0, H1. lia.
  - apply Nat.eqb_neq in E. rewrite Ho by congruence. lia.
Qed.
Lemma procpos_all s ops : procpos s ops = length ops <-> forall o, In o ops -> is_proc s o = true.
Proof.
  induction ops as [|o t IH]; [cbn; split; [intros _ o []|reflexivity]|]. rewrite procpos_cons. cbn [length In].
  pose proof (procpos_le_length s t). destruct (is_proc s o) eqn:E.
  - split.
    + intros H1 o' [<-|Ho]; [exact E|]. apply IH; [lia|exact Ho].
    + intros H1. assert (procpos s t = length t) by (apply IH; intros; apply H1; auto). lia.
  - split; [lia|]. intros H1. rewrite (H1 o (or_introl eq_refl)) in E. discriminate.
Qed.
Lemma procpos_zero s ops : procpos s ops = 0%nat <-> forall o, In o ops -> is_proc s o = false.
Proof.
  induction ops as [|o t IH]; [cbn; split; [intros _ o []|reflexivity]|]. rewrite procpos_cons. cbn [In].
  destruct (is_proc s o) eqn:E.
  - split; [lia|]. intros H1. rewrite (H1 o (or_introl eq_refl)) in E. discriminate.
  - split.
    + intros H1 o' [<-|Ho]; [exact E|]. apply IH; [lia|exact Ho].
    + intros H1. apply IH. intros; apply H1; auto.
Qed.

Lemma is_proc_iff s o : is_proc s o = true <-> processed_in o s.
Proof.
  unfold is_proc, processed_in, is_processed. destruct (get_event o s) as [ev|].
  - destruct (cbs ev) eqn:E; split; try discriminate.
    + intros (ev' & H & C). injection H as <-. congruence.
    + intros _. exists ev. auto.
    + reflexivity.
  - split; [discriminate|intros (ev & H & _); discriminate].
Qed.

(* ------------------------------------------------------------------------------------------------ *)
(* the state invariant *)

Definition justified (s : state) (cev : event) (all : bool) (ops : list evid) (n : nat) : Prop :=
  match out cev with
  | Some (Ok _) => cond_evaluate all (length ops) n = true
  | Some (Fail _) => exists o oev, In o ops /\ get_event o s = Some oev /\ cbs oev = None /\ defused oev = true
  | None => True
  end.

Record cinv (X : list evid) (s : state) : Prop := mkCinv {
  ci_agenda : forall x, In x (agenda s) -> exists ev, get_event (e_ev x) s = Some ev /\ out ev <> None;
  ci_older : forall c cev all ops n, get_event c s = Some cev -> kind cev = KCond all ops n ->
             forall o, In o ops -> (o < c)%nat;
  ci_proc_trig : forall e ev, get_event e s = Some ev -> cbs ev = None -> out ev <> None;
  ci_check : forall o oev l c, get_event o s = Some oev -> cbs oev = Some l -> In (CbCheck c) l ->
             exists cev all ops n, get_event c s = Some cev /\ kind cev = KCond all ops n /\
                                   (cbcount (CbCheck c) l <= occ o ops)%nat;
  ci_build : forall e ev l c, get_event e s = Some ev -> cbs ev = Some l -> In (CbBuild c) l ->
             c = e /\ hd_error l = Some (CbBuild c) /\ cbcount (CbBuild c) l = 1%nat;
  ci_build_head : forall c cev all ops n l, get_event c s = Some cev -> kind cev = KCond all ops n ->
             cbs cev = Some l -> ops <> [] -> In (CbBuild c) l;
  ci_pending : forall c cev all ops n, get_event c s = Some cev -> kind cev = KCond all ops n ->
             out cev = None -> cond_evaluate all (length ops) n = false;
  ci_just : forall c cev all ops n, get_event c s = Some cev -> kind cev = KCond all ops n ->
             ~ In c X -> justified s cev all ops n }.

Definition ostat (o : option outcome) : nat :=
  match o with None => 0 | Some (Ok _) => 1 | Some (Fail _) => 2 end.

Definition cbl_le (l l' : list cb) : Prop :=
  (forall c, cbcount (CbCheck c) l' <= cbcount (CbCheck c) l)%nat /\
  (forall c, cbcount (CbBuild c) l' = cbcount (CbBuild c) l) /\
  (forall c, hd_error l = Some (CbBuild c) -> hd_error l' = Some (CbBuild c)).

Lemma kind_le_cond k k' all ops n' : kind_le k k' -> k' = KCond all ops n' -> exists n, k = KCond all ops n /\ (n <= n')%nat.
Proof.
  intros [->|(a & o & n & m & -> & -> & L)] E.
  - exists n'. split; [exact E|lia].
  - injection E as -> -> ->. exists n. auto.
Qed.

Lemma kind_le_cond_fwd k k' all ops n : kind_le k k' -> k = KCond all ops n -> exists n', k' = KCond all ops n' /\ (n <= n')%nat.
Proof.
  intros [->|(a & o & n0 & m & -> & -> & L)] E.
  - exists n. split; [exact E|lia].
  - injection E as -> -> ->. exists m. auto.
Qed.

(* transfer of a justification to a later state *)
Lemma justified_mono s s' cev cev' all ops n n' :
  justified s cev all ops n -> grows s s' -> ostat (out cev') = ostat (out cev) ->
  (cond_evaluate all (length ops) n = true -> cond_evaluate all (length ops) n' = true) ->
  justified s' cev' all ops n'.
Proof.
  unfold justified. intros J [G _] St Ev.
  destruct (out cev') as [[v|x]|], (out cev) as [[v0|x0]|]; cbn in St; try discriminate; auto.
  destruct J as (o & oev & Io & Ho & Co & Do). destruct (G _ _ Ho) as (oev' & Ho' & _ & C' & _ & D').
  exists o, oev'. auto.
Qed.

(* the general update lemma: the event e is replaced by ev' *)
Lemma cinv_upd_gen X X' s e f ev :
  cinv X s -> incl X X' -> get_event e s = Some ev ->
  kind_le (kind ev) (kind (f ev)) -> (cbs ev = None -> cbs (f ev) = None) -> (cbs (f ev) = None -> out (f ev) <> None) ->
  (forall l l', cbs ev = Some l -> cbs (f ev) = Some l' -> cbl_le l l') ->
  (out ev <> None -> out (f ev) <> None) -> (defused ev = true -> defused (f ev) = true) ->
  (forall all ops n, kind (f ev) = KCond all ops n -> out (f ev) = None -> cond_evaluate all (length ops) n = false) ->
  (forall all ops n, kind (f ev) = KCond all ops n -> ~ In e X' -> justified (upd_event e f s) (f ev) all ops n) ->
  cinv X' (upd_event e f s).
Proof.
  intros CI HX He Uk Uc Up Ul Uo Ud UP UJ.
  assert (GR : grows s (upd_event e f s)).
  { apply grows_upd. intros ev0 H0. rewrite He in H0. injection H0 as <-. repeat split; auto. }
  assert (G : forall e0 ev0', get_event e0 (upd_event e f s) = Some ev0' ->
                (e0 = e /\ ev0' = f ev) \/ (e0 <> e /\ get_event e0 s = Some ev0')).
  { intros e0 ev0'. rewrite get_upd. destruct (Nat.eqb e0 e) eqn:E.
    - apply Nat.eqb_eq in E. subst e0. rewrite He. cbn. intros H; injection H as <-. left; auto.
    - apply Nat.eqb_neq in E. intros H. right; auto. }
  assert (G2 : forall e0 ev0, get_event e0 s = Some ev0 -> exists ev0', get_event e0 (upd_event e f s) = Some ev0' /\
                 kind_le (kind ev0) (kind ev0') /\ (out ev0 <> None -> out ev0' <> None) /\ (cbs ev0 = None -> cbs ev0' = None) /\
                 (defused ev0 = true -> defused ev0' = true)).
  { intros e0 ev0 H. destruct (proj1 GR _ _ H) as (ev0' & H' & A & B & C & D). exists ev0'. auto. }
  constructor.
  - intros x Hx. change (agenda (upd_event e f s)) with (agenda s) in Hx.
    destruct (ci_agenda _ _ CI _ Hx) as (ev0 & H0 & O0). destruct (G2 _ _ H0) as (ev0' & H0' & _ & O & _).
    exists ev0'. split; [exact H0'|apply O, O0].
  - intros c cev all ops n Hc Kc. destruct (G _ _ Hc) as [[-> ->]|[_ Hc']].
    + destruct (kind_le_cond _ _ _ _ _ Uk Kc) as (n0 & K0 & _). eapply ci_older; eassumption.
    + eapply ci_older; eassumption.
  - intros e0 ev0 H0 C0. destruct (G _ _ H0) as [[-> ->]|[_ H0']].
    + apply Up, C0.
    + eapply ci_proc_trig; eassumption.
  - intros o oev l c Ho Cl Hin.
    assert (Old : exists l0, get_event o s = Some (if Nat.eqb o e then ev else oev) /\
                   cbs (if Nat.eqb o e then ev else oev) = Some l0 /\ In (CbCheck c) l0 /\
                   (cbcount (CbCheck c) l <= cbcount (CbCheck c) l0)%nat).
    { destruct (G _ _ Ho) as [[-> ->]|[N Ho']].
      - rewrite Nat.eqb_refl. destruct (cbs ev) as [l0|] eqn:C0; [|specialize (Uc eq_refl); congruence].
        destruct (Ul _ _ eq_refl Cl) as (L1 & _). exists l0. repeat split; auto.
        apply cbcount_in. apply cbcount_in in Hin. specialize (L1 c). lia.
      - apply Nat.eqb_neq in N. rewrite N. exists l. repeat split; auto. }
    destruct Old as (l0 & Ho0 & C0 & In0 & Le).
    destruct (ci_check _ _ CI _ _ _ _ Ho0 C0 In0) as (cev & all & ops & n & Hc & Kc & Lc).
    destruct (G2 _ _ Hc) as (cev' & Hc' & Kc' & _).
    destruct (kind_le_cond_fwd _ _ _ _ _ Kc' Kc) as (n' & Kn' & _). exists cev', all, ops, n'.
    split; [exact Hc'|]. split; [exact Kn'|lia].
  - intros e0 ev0 l c H0 Cl Hin. destruct (G _ _ H0) as [[-> ->]|[_ H0']].
    + destruct (cbs ev) as [l0|] eqn:C0; [|specialize (Uc eq_refl); congruence].
      destruct (Ul _ _ eq_refl Cl) as (_ & L2 & L3).
      assert (In0 : In (CbBuild c) l0). { apply cbcount_in. rewrite <- L2. apply cbcount_in, Hin. }
      destruct (ci_build _ _ CI _ _ _ _ He C0 In0) as (-> & Hd & Cn). split; [reflexivity|].
      split; [apply L3, Hd|rewrite L2; exact Cn].
    + eapply ci_build; eassumption.
  - intros c cev all ops n l Hc Kc Cl Ne. destruct (G _ _ Hc) as [[-> ->]|[_ Hc']].
    + destruct (cbs ev) as [l0|] eqn:C0; [|specialize (Uc eq_refl); congruence].
      destruct (Ul _ _ eq_refl Cl) as (_ & L2 & _). destruct (kind_le_cond _ _ _ _ _ Uk Kc) as (n0 & K0 & _).
      pose proof (ci_build_head _ _ CI _ _ _ _ _ _ He K0 C0 Ne) as In0.
      apply cbcount_in. rewrite L2. apply cbcount_in, In0.
    + eapply ci_build_head; eassumption.
  - intros c cev all ops n Hc Kc Oc. destruct (G _ _ Hc) as [[-> ->]|[_ Hc']].
    + eapply UP; eassumption.
    + eapply ci_pending; eassumption.
  - intros c cev all ops n Hc Kc NX. destruct (G _ _ Hc) as [[-> ->]|[_ Hc']].
    + apply UJ; assumption.
    + assert (NX0 : ~ In c X) by (intros H; apply NX, HX, H).
      eapply justified_mono; [eapply ci_just; eassumption|exact GR|reflexivity|auto].
Qed.

Definition ev_upd_ok (X' : list evid) (e : evid) (ev ev' : event) : Prop :=
  kind ev' = kind ev /\ (cbs ev = None -> cbs ev' = None) /\ (cbs ev' = None -> out ev' <> None) /\
  (forall l l', cbs ev = Some l -> cbs ev' = Some l' -> cbl_le l l') /\
  (out ev <> None -> out ev' <> None) /\ (defused ev = true -> defused ev' = true) /\
  (is_cond ev = true -> ostat (out ev') = ostat (out ev) \/ (out ev = None /\ In e X')).

Lemma cinv_upd X X' s e f ev :
  cinv X s -> incl X X' -> get_event e s = Some ev -> ev_upd_ok X' e ev (f ev) -> cinv X' (upd_event e f s).
Proof.
  intros CI HX He (Uk & Uc & Up & Ul & Uo & Ud & Uj).
  assert (GR : grows s (upd_event e f s)).
  { apply grows_upd. intros ev0 H0. rewrite He in H0. injection H0 as <-. repeat split; auto. left. exact Uk. }
  eapply cinv_upd_gen; eauto.
  - left. exact Uk.
  - intros all ops n Kc Oc. rewrite Uk in Kc.
    assert (IC : is_cond ev = true) by (unfold is_cond; rewrite Kc; reflexivity).
    eapply ci_pending; [exact CI|exact He|exact Kc|].
    destruct (Uj IC) as [S|[O _]]; [|exact O]. rewrite Oc in S. destruct (out ev) as [[?|?]|]; cbn in S; congruence.
  - intros all ops n Kc NX. rewrite Uk in Kc.
    assert (IC : is_cond ev = true) by (unfold is_cond; rewrite Kc; reflexivity).
    destruct (Uj IC) as [S|[_ Hin]]; [|contradiction].
    assert (NX0 : ~ In e X) by (intros H; apply NX, HX, H).
    eapply justified_mono; [eapply ci_just; eassumption|exact GR|exact S|auto].
Qed.

(* changes that leave the events alone *)
Lemma cinv_same_events X s s' :
  cinv X s -> events s' = events s ->
  (forall x, In x (agenda s') -> In x (agenda s) \/ exists ev, get_event (e_ev x) s = Some ev /\ out ev <> None) ->
  cinv X s'.
Proof.
  intros CI E A.
  assert (G : forall e, get_event e s' = get_event e s) by (intros; unfold get_event; rewrite E; reflexivity).
  constructor.
  - intros x Hx. rewrite G. destruct (A _ Hx) as [H|H]; [eapply ci_agenda; eassumption|exact H].
  - intros c cev all ops n. rewrite G. apply (ci_older _ _ CI).
  - intros e ev. rewrite G. apply (ci_proc_trig _ _ CI).
  - intros o oev l c. rewrite G. intros H1 H2 H3.
    destruct (ci_check _ _ CI _ _ _ _ H1 H2 H3) as (cev & all & ops & n & A1 & A2 & A3). exists cev, all, ops, n. rewrite G. auto.
  - intros e ev l c. rewrite G. apply (ci_build _ _ CI).
  - intros c cev all ops n l. rewrite G. apply (ci_build_head _ _ CI).
  - intros c cev all ops n. rewrite G. apply (ci_pending _ _ CI).
  - intros c cev all ops n. rewrite G. intros H1 H2 H3. pose proof (ci_just _ _ CI _ _ _ _ _ H1 H2 H3) as J.
    unfold justified in *. destruct (out cev) as [[?|?]|]; auto.
    destruct J as (o & oev & J1 & J2 & J3). exists o, oev. rewrite G. auto.
Qed.

(* ---- instances ---- *)

Lemma cbl_le_refl l : cbl_le l l.
Proof. repeat split; auto. Qed.

Lemma cbcount_plain_single c d : plain_cb d -> (match c with CbCheck _ | CbBuild _ => True | _ => False end) -> cbcount c [d] = 0%nat.
Proof. intros P C. rewrite cbcount_cons, cbcount_nil. destruct c, d; cbn in *; try contradiction; reflexivity. Qed.

Lemma cbl_le_app_plain l d : plain_cb d -> cbl_le l (l ++ [d]).
Proof.
  intros P. repeat split; intros c.
  - rewrite cbcount_app, cbcount_plain_single; [lia|exact P|exact I].
  - rewrite cbcount_app, cbcount_plain_single; [lia|exact P|exact I].
  - destruct l; cbn; [discriminate|auto].
Qed.

Lemma cbl_le_remove l d : (match d with CbBuild _ => False | _ => True end) -> cbl_le l (remove_first d l).
Proof.
  intros P. repeat split; intros c.
  - destruct d; try (rewrite cbcount_remove_other by discriminate; lia).
    destruct (Nat.eq_dec c0 c) as [->|N]; [rewrite cbcount_remove_same; lia|].
    rewrite cbcount_remove_other by congruence. lia.
  - apply cbcount_remove_other. destruct d; try discriminate. contradiction.
  - destruct l as [|x t]; cbn; [discriminate|]. intros H; injection H as ->.
    destruct d; cbn; try reflexivity. contradiction.
Qed.

Lemma mk_ok X e ev ev' :
  kind ev' = kind ev -> (cbs ev = None -> cbs ev' = None) -> (cbs ev' = None -> out ev' <> None) ->
  (forall l l', cbs ev = Some l -> cbs ev' = Some l' -> cbl_le l l') ->
  (out ev <> None -> out ev' <> None) -> (defused ev = true -> defused ev' = true) ->
  (is_cond ev = true -> ostat (out ev') = ostat (out ev) \/ (out ev = None /\ In e X)) ->
  ev_upd_ok X e ev ev'.
Proof. unfold ev_upd_ok. auto 10. Qed.

Lemma ok_add_cb X e c ev : plain_cb c -> (cbs ev = None -> out ev <> None) -> ev_upd_ok X e ev (ev_add_cb c ev).
Proof.
  intros P T. unfold ev_add_cb. destruct (cbs ev) as [l|] eqn:C.
  - apply mk_ok; cbn; auto; try congruence.
    intros l1 l2 H H'. rewrite C in H. injection H as <-. injection H' as <-. apply cbl_le_app_plain, P.
  - apply mk_ok; auto; try congruence.
Qed.

Lemma ok_set_cbs X e ev l d :
  cbs ev = Some l -> (match d with CbBuild _ => False | _ => True end) ->
  ev_upd_ok X e ev (ev_set_cbs (Some (remove_first d l)) ev).
Proof.
  intros C P. apply mk_ok; cbn; auto; try congruence.
  intros l1 l2 H H'. rewrite C in H. injection H as <-. injection H' as <-. apply cbl_le_remove, P.
Qed.

Lemma ok_set_out X e ev o :
  (is_cond ev = true -> ostat (Some o) = ostat (out ev) \/ (out ev = None /\ In e X)) ->
  ev_upd_ok X e ev (ev_set_out (Some o) ev).
Proof.
  intros J. apply mk_ok; cbn; auto; try congruence.
  intros l1 l2 H H'. rewrite H in H'. injection H' as <-. apply cbl_le_refl.
Qed.

Lemma ok_set_defused X e ev : (cbs ev = None -> out ev <> None) -> ev_upd_ok X e ev (ev_set_defused ev).
Proof.
  intros T. apply mk_ok; cbn; auto.
  intros l1 l2 H H'. rewrite H in H'. injection H' as <-. apply cbl_le_refl.
Qed.

Lemma ok_set_processed X e ev : out ev <> None -> ev_upd_ok X e ev (ev_set_cbs None ev).
Proof. intros T. apply mk_ok; cbn; auto; try congruence. Qed.

Lemma upd_event_none e f s : get_event e s = None -> upd_event e f s = s.
Proof. intros H. apply upd_event_id. intros ev H'. congruence. Qed.

Lemma cinv_weaken X X' s : cinv X s -> incl X X' -> cinv X' s.
Proof.
  intros CI HX. destruct CI. constructor; auto. intros c cev all ops n H1 H2 H3. eapply ci_just0; eauto.
Qed.

Lemma cinv_new_plain X ev s : cinv X s -> plain_new ev -> (cbs ev = None -> out ev <> None) -> cinv X (snd (new_event ev s)).
Proof.
  intros CI ((l0 & Cl0 & Pl0) & Kn) _.
  set (s' := snd (new_event ev s)).
  assert (G : forall e ev', get_event e s' = Some ev' -> (get_event e s = Some ev') \/ (e = length (events s) /\ ev' = ev)).
  { intros e ev'. unfold s'. rewrite get_new. destruct (Nat.ltb e (length (events s))); [auto|].
    destruct (Nat.eqb e (length (events s))) eqn:E; [|discriminate]. apply Nat.eqb_eq in E. intros H; injection H as <-. auto. }
  assert (G2 : forall e ev', get_event e s = Some ev' -> get_event e s' = Some ev').
  { intros e ev' H. unfold s'. rewrite get_new_old; [exact H|eapply get_lt, H]. }
  constructor.
  - intros x Hx. destruct (ci_agenda _ _ CI x Hx) as (ev0 & A & B). exists ev0. auto.
  - intros c cev all ops n Hc Kc. destruct (G _ _ Hc) as [H|[-> ->]]; [eapply ci_older; eassumption|].
    rewrite Kc in Kn. contradiction.
  - intros e ev' He C. destruct (G _ _ He) as [H|[-> ->]]; [eapply ci_proc_trig; eassumption|congruence].
  - intros o oev l c Ho Cl Hin. destruct (G _ _ Ho) as [H|[-> ->]].
    + destruct (ci_check _ _ CI _ _ _ _ H Cl Hin) as (cev & all & ops & n & A1 & A2 & A3).
      exists cev, all, ops, n. auto.
    + rewrite Cl0 in Cl. injection Cl as <-. apply Pl0 in Hin. contradiction.
  - intros e ev' l c He Cl Hin. destruct (G _ _ He) as [H|[-> ->]]; [eapply ci_build; eassumption|].
    rewrite Cl0 in Cl. injection Cl as <-. apply Pl0 in Hin. contradiction.
  - intros c cev all ops n l Hc Kc. destruct (G _ _ Hc) as [H|[-> ->]]; [eapply ci_build_head; eassumption|].
    rewrite Kc in Kn. contradiction.
  - intros c cev all ops n Hc Kc. destruct (G _ _ Hc) as [H|[-> ->]]; [eapply ci_pending; eassumption|].
    rewrite Kc in Kn. contradiction.
  - intros c cev all ops n Hc Kc NX. destruct (G _ _ Hc) as [H|[-> ->]]; [|rewrite Kc in Kn; contradiction].
    pose proof (ci_just _ _ CI _ _ _ _ _ H Kc NX) as J. unfold justified in *. destruct (out cev) as [[?|?]|]; auto.
    destruct J as (o & oev & J1 & J2 & J3). exists o, oev. auto.
Qed.

Lemma cinv_schedule X e prio d s ev : cinv X s -> get_event e s = Some ev -> out ev <> None -> cinv X (schedule e prio d s).
Proof.
  intros CI He O. eapply cinv_same_events; [exact CI|reflexivity|].
  intros x Hx. cbn in Hx. apply in_app_or in Hx. destruct Hx as [H|[<-|[]]]; [auto|]. right. cbn. eauto.
Qed.

Lemma cinv_trigger X X' e ev o s :
  cinv X s -> incl X X' -> get_event e s = Some ev ->
  (is_cond ev = true -> ostat (Some o) = ostat (out ev) \/ (out ev = None /\ In e X')) ->
  cinv X' (trigger_event e o s).
Proof.
  intros CI HX He J. unfold trigger_event. eapply cinv_schedule.
  - eapply cinv_upd; [exact CI|exact HX|exact He|apply ok_set_out, J].
  - apply get_upd_same, He.
  - cbn. discriminate.
Qed.

(* ---- Condition._check ---- *)

Lemma upd_nth_twice {A} (f g : A -> A) n l : upd_nth n g (upd_nth n f l) = upd_nth n (fun x => g (f x)) l.
Proof. revert n. induction l as [|x t IH]; intros [|n]; cbn; try reflexivity. rewrite IH. reflexivity. Qed.

Lemma upd_nth_comm {A} (f g : A -> A) n m l : n <> m -> upd_nth n f (upd_nth m g l) = upd_nth m g (upd_nth n f l).
Proof.
  revert n m. induction l as [|x t IH]; intros [|n] [|m] H; cbn; try reflexivity; try congruence.
  rewrite IH by congruence. reflexivity.
Qed.

Lemma upd_event_twice e f g s : upd_event e g (upd_event e f s) = upd_event e (fun x => g (f x)) s.
Proof. unfold upd_event. cbn. rewrite upd_nth_twice. reflexivity. Qed.

Lemma upd_event_comm e1 e2 f g s : e1 <> e2 -> upd_event e1 f (upd_event e2 g s) = upd_event e2 g (upd_event e1 f s).
Proof. intros H. unfold upd_event. cbn. rewrite upd_nth_comm by exact H. reflexivity. Qed.

(* what _check does, as one update of the condition (after the operand was defused, if it failed) *)
Definition check_upd (all : bool) (ops : list evid) (n : nat) (oo : option outcome) (cev : event) : event :=
  let cev1 := ev_set_kind (KCond all ops (S n)) cev in
  match oo with
  | Some (Fail x) => ev_set_out (Some (Fail x)) cev1
  | _ => if cond_evaluate all (length ops) (S n) then ev_set_out (Some (Ok VNone)) cev1 else cev1
  end.

Definition check_triggers (all : bool) (ops : list evid) (n : nat) (oo : option outcome) : bool :=
  match oo with Some (Fail _) => true | _ => cond_evaluate all (length ops) (S n) end.

Lemma cond_check_eq c o s cev oev all ops n :
  get_event c s = Some cev -> get_event o s = Some oev -> out cev = None -> kind cev = KCond all ops n -> c <> o ->
  let s0 := if is_failed oev then upd_event o ev_set_defused s else s in
  let s1 := upd_event c (check_upd all ops n (out oev)) s0 in
  cond_check c o s = if check_triggers all ops n (out oev) then schedule c NORMAL 0 s1 else s1.
Proof.
  intros Hc Ho Oc Kc N. unfold cond_check. rewrite Hc, Ho, Oc, Kc. unfold check_upd, check_triggers, is_failed, trigger_event.
  destruct (out oev) as [[v|x]|].
  - destruct (cond_evaluate all (length ops) (S n)); cbn zeta; [|reflexivity].
    rewrite upd_event_twice. reflexivity.
  - cbn zeta. rewrite (upd_event_comm o c) by congruence. rewrite upd_event_twice. reflexivity.
  - destruct (cond_evaluate all (length ops) (S n)); cbn zeta; [|reflexivity].
    rewrite upd_event_twice. reflexivity.
Qed.

Lemma cond_check_noop c o s :
  (get_event c s = None \/ get_event o s = None \/
   exists cev, get_event c s = Some cev /\ (out cev <> None \/ is_cond cev = false)) ->
  cond_check c o s = s.
Proof.
  unfold cond_check. intros [H|[H|(cev & H & [O|K])]].
  - rewrite H. reflexivity.
  - rewrite H. destruct (get_event c s); reflexivity.
  - rewrite H. destruct (get_event o s); [|reflexivity]. destruct (out cev); [reflexivity|congruence].
  - rewrite H. destruct (get_event o s); [|reflexivity]. unfold is_cond in K.
    destruct (out cev); [reflexivity|]. destruct (kind cev); try reflexivity. discriminate.
Qed.

Lemma cond_check_cases c o s :
  cond_check c o s = s \/
  exists cev oev all ops n, get_event c s = Some cev /\ get_event o s = Some oev /\ out cev = None /\ kind cev = KCond all ops n.
Proof.
  destruct (get_event c s) as [cev|] eqn:Hc; [|left; apply cond_check_noop; auto].
  destruct (get_event o s) as [oev|] eqn:Ho; [|left; apply cond_check_noop; auto].
  destruct (out cev) eqn:Oc; [left; apply cond_check_noop; right; right; exists cev; split; [exact Hc|left; congruence]|].
  destruct (kind cev) eqn:Kc; try (left; apply cond_check_noop; right; right; exists cev; split; [exact Hc|right; unfold is_cond; rewrite Kc; reflexivity]).
  right. exists cev, oev, all, ops, count. auto.
Qed.

Lemma cinv_cond_check X c o oev s :
  cinv X s -> get_event o s = Some oev -> cbs oev = None -> opnd s c o -> cinv X (cond_check c o s).
Proof.
  intros CI Ho Co Op. destruct (cond_check_cases c o s) as [->|(cev & oev' & all & ops & n & Hc & Ho' & Oc & Kc)]; [exact CI|].
  rewrite Ho in Ho'. injection Ho' as <-.
  pose proof (Op _ _ _ _ Hc Kc) as Io. pose proof (ci_older _ _ CI _ _ _ _ _ Hc Kc _ Io) as Lt.
  assert (N : c <> o) by lia.
  rewrite (cond_check_eq c o s cev oev all ops n Hc Ho Oc Kc N). cbv zeta.
  set (s0 := if is_failed oev then upd_event o ev_set_defused s else s).
  assert (CI0 : cinv X s0).
  { subst s0. destruct (is_failed oev); [|exact CI]. eapply cinv_upd; [exact CI|apply incl_refl|exact Ho|].
    apply ok_set_defused. intros _. eapply ci_proc_trig; eassumption. }
  assert (Hc0 : get_event c s0 = Some cev).
  { subst s0. destruct (is_failed oev); [|exact Hc]. rewrite get_upd_other by exact N. exact Hc. }
  assert (Ho0 : exists oev0, get_event o s0 = Some oev0 /\ cbs oev0 = None /\ (is_failed oev = true -> defused oev0 = true)).
  { subst s0. destruct (is_failed oev) eqn:F.
    - exists (ev_set_defused oev). split; [apply get_upd_same, Ho|]. split; [exact Co|reflexivity].
    - exists oev. split; [exact Ho|]. split; [exact Co|discriminate]. }
  set (s1 := upd_event c (check_upd all ops n (out oev)) s0).
  assert (CI1 : cinv X s1).
  { subst s1. eapply cinv_upd_gen; [exact CI0|apply incl_refl|exact Hc0|..].
    - unfold check_upd. right. exists all, ops, n, (S n).
      split; [exact Kc|]. split; [|lia].
      destruct (out oev) as [[?|?]|]; [destruct (cond_evaluate _ _ _)| |destruct (cond_evaluate _ _ _)]; reflexivity.
    - unfold check_upd. intros C. destruct (out oev) as [[?|?]|]; [destruct (cond_evaluate _ _ _)| |destruct (cond_evaluate _ _ _)]; exact C.
    - unfold check_upd. intros C. assert (C' : cbs cev = None).
      { destruct (out oev) as [[?|?]|]; [destruct (cond_evaluate _ _ _)| |destruct (cond_evaluate _ _ _)]; exact C. }
      exfalso. eapply (ci_proc_trig _ _ CI); eassumption.
    - intros l l' C C'. assert (E : cbs (check_upd all ops n (out oev) cev) = cbs cev).
      { unfold check_upd. destruct (out oev) as [[?|?]|]; [destruct (cond_evaluate _ _ _)| |destruct (cond_evaluate _ _ _)]; reflexivity. }
      rewrite E, C in C'. injection C' as <-. apply cbl_le_refl.
    - intros O. congruence.
    - unfold check_upd. intros D. destruct (out oev) as [[?|?]|]; [destruct (cond_evaluate _ _ _)| |destruct (cond_evaluate _ _ _)]; exact D.
    - unfold check_upd. intros all' ops' n' K O.
      destruct (out oev) as [[?|?]|]; [destruct (cond_evaluate all (length ops) (S n)) eqn:E| |destruct (cond_evaluate all (length ops) (S n)) eqn:E];
        cbn in K, O; try discriminate; injection K as <- <- <-; exact E.
    - unfold check_upd. intros all' ops' n' K _. unfold justified.
      destruct Ho0 as (oev0 & Ho0 & Co0 & Do0).
      destruct (out oev) as [[?|?]|] eqn:Oo; [destruct (cond_evaluate all (length ops) (S n)) eqn:E| |destruct (cond_evaluate all (length ops) (S n)) eqn:E];
        cbn in K |- *; injection K as <- <- <-; try exact E; try (rewrite Oc; exact I).
      exists o, oev0. split; [exact Io|]. split; [rewrite get_upd_other by congruence; exact Ho0|].
      split; [exact Co0|]. apply Do0. unfold is_failed. rewrite Oo. reflexivity. }
  destruct (check_triggers all ops n (out oev)) eqn:T; [|exact CI1].
  eapply cinv_schedule; [exact CI1|subst s1; apply get_upd_same, Hc0|].
  unfold check_upd, check_triggers in *. destruct (out oev) as [[?|?]|]; try (rewrite T); cbn; discriminate.
Qed.

(* ---- Condition._build_value: _remove_check_callbacks as a sequence of single removals ---- *)

Definition kinds_eq (s s' : state) : Prop := forall e, option_map kind (get_event e s') = option_map kind (get_event e s).

Lemma kinds_eq_refl s : kinds_eq s s. Proof. intros e; reflexivity. Qed.
Lemma kinds_eq_trans s1 s2 s3 : kinds_eq s1 s2 -> kinds_eq s2 s3 -> kinds_eq s1 s3.
Proof. intros A B e. rewrite B, A. reflexivity. Qed.
Lemma kinds_eq_sym s1 s2 : kinds_eq s1 s2 -> kinds_eq s2 s1.
Proof. intros A e. rewrite A. reflexivity. Qed.

Lemma kinds_eq_get s s' e ev : kinds_eq s s' -> get_event e s = Some ev -> exists ev', get_event e s' = Some ev' /\ kind ev' = kind ev.
Proof.
  intros K H. specialize (K e). rewrite H in K. destruct (get_event e s') as [ev'|]; [|discriminate].
  cbn in K. injection K as K. exists ev'. auto.
Qed.

Lemma kinds_eq_upd e f s : (forall ev, kind (f ev) = kind ev) -> kinds_eq s (upd_event e f s).
Proof.
  intros Hf e0. rewrite get_upd. destruct (Nat.eqb e0 e); [|reflexivity].
  destruct (get_event e0 s); cbn; [rewrite Hf|]; reflexivity.
Qed.

Lemma kinds_eq_remove_check_from d o s : kinds_eq s (remove_check_from d o s).
Proof.
  unfold remove_check_from. destruct (get_event o s); [|apply kinds_eq_refl]. destruct (cbs e); [|apply kinds_eq_refl].
  destruct (mem_cb _ _); [|apply kinds_eq_refl]. apply kinds_eq_upd. reflexivity.
Qed.

(* d is c itself or nested below c *)
Inductive desc (s : state) (c : evid) : evid -> Prop :=
| desc_refl : desc s c c
| desc_step d dev all ops n o : desc s c d -> get_event d s = Some dev -> kind dev = KCond all ops n -> In o ops -> desc s c o.

Lemma desc_kinds_eq s s' c d : kinds_eq s s' -> desc s c d -> desc s' c d.
Proof.
  intros K H. induction H as [|d dev all ops n o H IH Hd Kd Io]; [constructor|].
  destruct (kinds_eq_get _ _ _ _ K Hd) as (dev' & Hd' & Kd'). eapply desc_step; [exact IH|exact Hd'|rewrite Kd'; exact Kd|exact Io].
Qed.

Lemma desc_trans s a b c : desc s a b -> desc s b c -> desc s a c.
Proof. intros H1 H2. induction H2; [exact H1|]. eapply desc_step; eassumption. Qed.

Inductive rmsteps (D : evid -> Prop) : state -> state -> Prop :=
| rm_nil s : rmsteps D s s
| rm_cons d o s s' : D d -> rmsteps D (remove_check_from d o s) s' -> rmsteps D s s'.

Lemma rmsteps_trans (D : evid -> Prop) s1 s2 s3 : rmsteps D s1 s2 -> rmsteps D s2 s3 -> rmsteps D s1 s3.
Proof. induction 1; intros H3; [exact H3|]. econstructor; [eassumption|eauto]. Qed.

Lemma rmsteps_weaken (D D' : evid -> Prop) s s' : (forall d, D d -> D' d) -> rmsteps D s s' -> rmsteps D' s s'.
Proof. intros H R. induction R; [constructor|]. econstructor; [apply H; eassumption|eassumption]. Qed.

Lemma rmsteps_kinds_eq (D : evid -> Prop) s s' : rmsteps D s s' -> kinds_eq s s'.
Proof.
  induction 1; [apply kinds_eq_refl|]. eapply kinds_eq_trans; [apply kinds_eq_remove_check_from|eassumption].
Qed.

Lemma rmsteps_ind_P (P : state -> Prop) (D : evid -> Prop) s s' :
  (forall d o s0, D d -> P s0 -> P (remove_check_from d o s0)) -> rmsteps D s s' -> P s -> P s'.
Proof. intros H R. induction R; auto. Qed.

Lemma remove_checks_rm fuel : forall c s s', remove_checks fuel c s = Some s' -> rmsteps (desc s c) s s'.
Proof.
  induction fuel as [|f IH]; intros c s s'; cbn [remove_checks]; [discriminate|].
  destruct (get_event c s) as [cev|] eqn:Hc; [|discriminate].
  destruct (kind cev) as [| | | | |all ops n|] eqn:Kc; try (intros H; injection H as <-; constructor).
  assert (Gen : forall l s1 s2, (forall o, In o l -> In o ops) -> kinds_eq s s1 ->
            remove_ops (remove_checks f) c l s1 = Some s2 -> rmsteps (desc s c) s1 s2).
  { induction l as [|o t IHl]; intros s1 s2 Sub K; cbn [remove_ops].
    - intros H; injection H as <-. constructor.
    - destruct (get_event o s1) as [oev|]; [|discriminate].
      assert (K1 : kinds_eq s (remove_check_from c o s1)).
      { eapply kinds_eq_trans; [exact K|apply kinds_eq_remove_check_from]. }
      destruct (is_cond oev).
      + destruct (remove_checks f o (remove_check_from c o s1)) as [s3|] eqn:R; [|discriminate]. intros H.
        econstructor; [apply desc_refl|].
        pose proof (IH _ _ _ R) as R3.
        eapply rmsteps_trans.
        * eapply rmsteps_weaken; [|exact R3]. intros d Hd.
          apply (desc_kinds_eq _ s) in Hd; [|apply kinds_eq_sym, K1].
          eapply desc_trans; [|exact Hd]. eapply desc_step; [apply desc_refl|exact Hc|exact Kc|apply Sub; left; reflexivity].
        * apply IHl; [intros; apply Sub; right; assumption| |exact H].
          eapply kinds_eq_trans; [exact K1|eapply rmsteps_kinds_eq, R3].
      + intros H. econstructor; [apply desc_refl|]. apply IHl; [intros; apply Sub; right; assumption|exact K1|exact H]. }
  apply Gen; [auto|apply kinds_eq_refl].
Qed.

Lemma cinv_remove_check_from X d o s : cinv X s -> cinv X (remove_check_from d o s).
Proof.
  intros CI. unfold remove_check_from. destruct (get_event o s) as [oev|] eqn:Ho; [|exact CI].
  destruct (cbs oev) as [l|] eqn:Cl; [|exact CI]. destruct (mem_cb (CbCheck d) l); [|exact CI].
  eapply cinv_upd; [exact CI|apply incl_refl|exact Ho|]. apply ok_set_cbs; [exact Cl|exact I].
Qed.

Lemma cinv_cond_build X c s : cinv X s -> cinv X (fst (cond_build c s)).
Proof.
  intros CI. unfold cond_build. destruct (remove_checks (S c) c s) as [s1|] eqn:R; [|exact CI].
  assert (CI1 : cinv X s1).
  { eapply rmsteps_ind_P; [|eapply remove_checks_rm, R|exact CI]. intros; apply cinv_remove_check_from; assumption. }
  destruct (get_event c s1) as [cev|] eqn:Hc; [|exact CI1].
  destruct (out cev) as [[v|x]|] eqn:Oc; try exact CI1.
  destruct (kind cev) eqn:Kc; try exact CI1.
  destruct (populate (S c) (events s1) ops); [|exact CI1]. cbn [fst].
  eapply cinv_upd; [exact CI1|apply incl_refl|exact Hc|]. apply ok_set_out. intros _. left. rewrite Oc. reflexivity.
Qed.

(* ---- Condition.__init__ : closed form of the state after call_cond ---- *)

Lemma get_schedule e c p d s : get_event e (schedule c p d s) = get_event e s.
Proof. reflexivity. Qed.

(* effect of _check on the events other than the condition *)
Lemma cond_check_frame c o s e :
  e <> c ->
  get_event e (cond_check c o s) = get_event e s \/
  (e = o /\ exists oev, get_event o s = Some oev /\ is_failed oev = true /\
            get_event e (cond_check c o s) = Some (ev_set_defused oev)).
Proof.
  intros N. unfold cond_check.
  destruct (get_event c s) as [cev|] eqn:Hc; [|left; reflexivity].
  destruct (get_event o s) as [oev|] eqn:Ho; [|left; reflexivity].
  destruct (out cev); [left; reflexivity|]. destruct (kind cev); try (left; reflexivity).
  destruct (out oev) as [[v|x]|] eqn:Oo.
  - left. destruct (cond_evaluate _ _ _); unfold trigger_event; rewrite ?get_schedule, ?get_upd_other by exact N; reflexivity.
  - unfold trigger_event. rewrite get_schedule.
    rewrite get_upd_other by exact N. rewrite get_upd. destruct (Nat.eqb e o) eqn:E.
    + apply Nat.eqb_eq in E. subst e. right. split; [reflexivity|]. exists oev.
      rewrite get_upd_other by exact N. rewrite Ho. unfold is_failed. rewrite Oo. auto.
    + left. rewrite get_upd_other by exact N. reflexivity.
  - left. destruct (cond_evaluate _ _ _); unfold trigger_event; rewrite ?get_schedule, ?get_upd_other by exact N; reflexivity.
Qed.

Lemma length_cond_check c o s : length (events (cond_check c o s)) = length (events s).
Proof.
  unfold cond_check. destruct (get_event c s); [|reflexivity]. destruct (get_event o s); [|reflexivity].
  destruct (out e); [reflexivity|]. destruct (kind e); try reflexivity.
  destruct (out e0) as [[?|?]|]; [destruct (cond_evaluate _ _ _)| |destruct (cond_evaluate _ _ _)];
    unfold trigger_event; cbn [events schedule]; rewrite ?upd_event_length; reflexivity.
Qed.

Lemma length_cond_subscribe c l : forall s, length (events (cond_subscribe c l s)) = length (events s).
Proof.
  induction l as [|o t IH]; intros s; cbn [cond_subscribe]; [reflexivity|]. rewrite IH.
  destruct (get_event o s); [|reflexivity]. destruct (is_processed e); [apply length_cond_check|apply upd_event_length].
Qed.

Lemma repeat_cons_app {A} (x : A) n l : l ++ x :: repeat x n = (l ++ [x]) ++ repeat x n.
Proof. rewrite <- app_assoc. reflexivity. Qed.

Lemma sub_frame c : forall l s, (forall o, In o l -> o <> c) -> forall e ev, e <> c -> get_event e s = Some ev ->
  exists ev', get_event e (cond_subscribe c l s) = Some ev' /\ kind ev' = kind ev /\ out ev' = out ev /\
    (defused ev = true -> defused ev' = true) /\
    (defused ev' = true -> defused ev = true \/ (In e l /\ cbs ev = None /\ is_failed ev = true)) /\
    cbs ev' = match cbs ev with None => None | Some l0 => Some (l0 ++ repeat (CbCheck c) (occ e l)) end.
Proof.
  induction l as [|o t IH]; intros s Hl e ev N He; cbn [cond_subscribe].
  - exists ev. repeat split; auto. destruct (cbs ev); [rewrite app_nil_r|]; reflexivity.
  - set (s1 := match get_event o s with
               | Some oev => if is_processed oev then cond_check c o s else add_callback o (CbCheck c) s
               | None => s end).
    assert (H1 : exists ev1, get_event e s1 = Some ev1 /\ kind ev1 = kind ev /\ out ev1 = out ev /\
                   (defused ev = true -> defused ev1 = true) /\
                   (defused ev1 = true -> defused ev = true \/ (e = o /\ cbs ev = None /\ is_failed ev = true)) /\
                   cbs ev1 = match cbs ev with None => None
                                          | Some l0 => Some (if Nat.eqb e o then l0 ++ [CbCheck c] else l0) end).
    { subst s1. destruct (get_event o s) as [oev|] eqn:Ho.
      - destruct (is_processed oev) eqn:Po.
        + destruct (cond_check_frame c o s e N) as [E|(-> & oev' & Ho' & F & E)].
          * exists ev. rewrite E. repeat split; auto.
            destruct (cbs ev) eqn:C; [|reflexivity]. destruct (Nat.eqb e o) eqn:Eo; [|reflexivity].
            apply Nat.eqb_eq in Eo. subst e. rewrite He in Ho. injection Ho as <-. unfold is_processed in Po. rewrite C in Po. discriminate.
          * rewrite Ho in Ho'. injection Ho' as <-. rewrite He in Ho. injection Ho as <-.
            exists (ev_set_defused ev). split; [exact E|]. cbn. repeat split; auto.
            -- intros _. right. unfold is_processed in Po. destruct (cbs ev); [discriminate|auto].
            -- unfold is_processed in Po. destruct (cbs ev); [discriminate|reflexivity].
        + unfold add_callback. rewrite get_upd. destruct (Nat.eqb e o) eqn:Eo.
          * apply Nat.eqb_eq in Eo. subst e. rewrite He in Ho. injection Ho as <-. rewrite He. cbn.
            exists (ev_add_cb (CbCheck c) ev). split; [reflexivity|]. unfold ev_add_cb, is_processed in *.
            destruct (cbs ev) eqn:C; [|discriminate]. cbn. rewrite ?Nat.eqb_refl. repeat split; auto.
          * exists ev. repeat split; auto. destruct (cbs ev); reflexivity.
      - exists ev. repeat split; auto. destruct (cbs ev) eqn:C; [|reflexivity]. destruct (Nat.eqb e o) eqn:Eo; [|reflexivity].
        apply Nat.eqb_eq in Eo. subst e. congruence. }
    destruct H1 as (ev1 & He1 & K1 & O1 & D1 & D1' & C1).
    destruct (IH s1 (fun o' Ho' => Hl o' (or_intror Ho')) e ev1 N He1) as (ev' & He' & K' & O' & D' & D'' & C').
    exists ev'. split; [exact He'|]. split; [congruence|]. split; [congruence|]. split; [auto|]. split.
    + intros Dd. destruct (D'' Dd) as [Dd1|(I1 & Cb1 & F1)].
      * destruct (D1' Dd1) as [?|(-> & ? & ?)]; [auto|]. right. split; [left; reflexivity|auto].
      * right. split; [right; exact I1|]. unfold is_failed in *. rewrite O1 in F1. split; [|exact F1].
        rewrite C1 in Cb1. destruct (cbs ev); [discriminate|reflexivity].
    + rewrite C', C1. destruct (cbs ev) as [l0|]; [|reflexivity]. rewrite occ_cons.
      destruct (Nat.eqb e o); cbn [plus repeat]; [|reflexivity]. rewrite <- app_assoc. reflexivity.
Qed.

Lemma sub1_is_proc c o s e : o <> c -> e <> c -> is_proc (cond_subscribe c [o] s) e = is_proc s e.
Proof.
  intros No Ne. unfold is_proc. destruct (get_event e s) as [ev|] eqn:He.
  - destruct (sub_frame c [o] s) with (e := e) (ev := ev) as (ev' & He' & _ & _ & _ & _ & C); auto.
    { intros o' [<-|[]]. exact No. }
    rewrite He'. unfold is_processed. rewrite C. destruct (cbs ev); reflexivity.
  - assert (L : (length (events s) <= e)%nat) by (apply nth_error_None; exact He).
    rewrite get_ge; [reflexivity|]. rewrite length_cond_subscribe. exact L.
Qed.

Lemma sub1_other c o s e ev : o <> c -> e <> c -> get_event e s = Some ev ->
  exists ev', get_event e (cond_subscribe c [o] s) = Some ev' /\ out ev' = out ev /\ (cbs ev = None -> cbs ev' = None) /\
              (defused ev = true -> defused ev' = true).
Proof.
  intros No Ne He. destruct (sub_frame c [o] s) with (e := e) (ev := ev) as (ev' & He' & _ & O & D & _ & C); auto.
  { intros o' [<-|[]]. exact No. }
  exists ev'. repeat split; auto. intros Cn. rewrite C, Cn. reflexivity.
Qed.

(* the record of the condition under construction, after the operands [done] have been visited *)
Definition CS (s : state) (c : evid) (all : bool) (ops done : list evid) : Prop :=
  exists cev n, get_event c s = Some cev /\ cbs cev = Some [] /\ kind cev = KCond all ops n /\
    (n <= procpos s done)%nat /\
    match out cev with
    | None => n = procpos s done /\ cond_evaluate all (length ops) n = false /\
              (forall o oev, In o done -> get_event o s = Some oev -> cbs oev = None -> is_failed oev = false)
    | Some (Ok v) => v = VNone /\ cond_evaluate all (length ops) n = true
    | Some (Fail x) => exists o oev, In o done /\ get_event o s = Some oev /\ cbs oev = None /\ defused oev = true /\
                                     out oev = Some (Fail x)
    end.

Lemma CS_step c all ops o s done :
  o <> c -> (forall d, In d done -> d <> c) -> CS s c all ops done -> CS (cond_subscribe c [o] s) c all ops (done ++ [o]).
Proof.
  intros No Nd (cev & n & Hc & Cc & Kc & Le & M).
  set (s1 := cond_subscribe c [o] s).
  assert (PP : procpos s1 (done ++ [o]) = (procpos s done + (if is_proc s o then 1 else 0))%nat).
  { rewrite procpos_app, procpos_cons. unfold procpos at 3. cbn [filter length]. rewrite Nat.add_0_r.
    unfold s1. rewrite sub1_is_proc by auto. f_equal. apply procpos_ext. intros d Hd. apply sub1_is_proc; auto. }
  (* the events of [done] keep what matters *)
  assert (Keep : forall d dev, d <> c -> get_event d s = Some dev -> exists dev', get_event d s1 = Some dev' /\
                   out dev' = out dev /\ (cbs dev = None -> cbs dev' = None) /\ (defused dev = true -> defused dev' = true)).
  { intros d dev Hd H. apply sub1_other; auto. }
  assert (Keep2 : forall d dev', d <> c -> get_event d s1 = Some dev' -> exists dev, get_event d s = Some dev /\
                   out dev' = out dev /\ (cbs dev' = None -> cbs dev = None)).
  { intros d dev' Hd H. destruct (get_event d s) as [dev|] eqn:E.
    - destruct (sub_frame c [o] s) with (e := d) (ev := dev) as (dev2 & He' & _ & O & _ & _ & C); auto.
      { intros o' [<-|[]]. exact No. }
      fold s1 in He'. rewrite H in He'. injection He' as <-. exists dev. split; [reflexivity|]. split; [exact O|].
      rewrite C. destruct (cbs dev); [discriminate|reflexivity].
    - exfalso. assert (L : (length (events s) <= d)%nat) by (apply nth_error_None; exact E).
      unfold s1 in H. rewrite get_ge in H; [discriminate|]. rewrite length_cond_subscribe. exact L. }
  (* case analysis on the iteration *)
  unfold s1 in *. cbn [cond_subscribe] in *. clear s1.
  destruct (get_event o s) as [oev|] eqn:Ho.
  2:{ (* not an event: nothing happens *)
      exists cev, n. assert (Po : is_proc s o = false) by (unfold is_proc; rewrite Ho; reflexivity).
      rewrite Po, Nat.add_0_r in PP. rewrite PP.
      split; [exact Hc|]. split; [exact Cc|]. split; [exact Kc|]. split; [exact Le|].
      destruct (out cev) as [[v|x]|]; auto.
      - destruct M as (d & dev & A & B). exists d, dev. split; [apply in_or_app; auto|exact B].
      - destruct M as (A & B & C). split; [exact A|]. split; [exact B|].
        intros d dev Hd Hg Cb. apply in_app_or in Hd. destruct Hd as [Hd|[Hd|[]]]; [eapply C; eauto|subst d; congruence]. }
  assert (Po : is_proc s o = is_processed oev) by (unfold is_proc; rewrite Ho; reflexivity).
  destruct (is_processed oev) eqn:Pr.
  2:{ (* pending operand: subscribe *)
      rewrite Po, Nat.add_0_r in PP. exists cev, n.
      rewrite PP. split; [unfold add_callback; rewrite get_upd_other by congruence; exact Hc|]. split; [exact Cc|]. split; [exact Kc|]. split; [exact Le|].
      destruct (out cev) as [[v|x]|]; auto.
      - destruct M as (d & dev & A & B & C & D & E). destruct (Keep _ _ (Nd _ A) B) as (dev' & B' & O' & C' & D').
        exists d, dev'. split; [apply in_or_app; auto|]. split; [exact B'|]. split; [auto|]. split; [auto|congruence].
      - destruct M as (A & B & C). split; [exact A|]. split; [exact B|]. intros d dev Hd Hg Cb.
        apply in_app_or in Hd. destruct Hd as [Hd|[<-|[]]].
        + destruct (Keep2 _ _ (Nd _ Hd) Hg) as (dev0 & H0 & O0 & C0). unfold is_failed. rewrite O0. eapply C; eauto.
        + destruct (Keep2 _ _ No Hg) as (dev0 & H0 & O0 & C0). rewrite Ho in H0. injection H0 as <-.
          unfold is_processed in Pr. rewrite (C0 Cb) in Pr. discriminate. }
  (* processed operand: _check *)
  rewrite Po in PP.
  destruct (out cev) as [oc|] eqn:Oc.
  { (* already triggered: _check returns at once *)
    rewrite cond_check_noop in * by (right; right; exists cev; split; [exact Hc|left; congruence]).
    exists cev, n. rewrite Oc. split; [exact Hc|]. split; [exact Cc|]. split; [exact Kc|]. split; [rewrite PP; lia|].
    destruct oc as [v|x]; auto. destruct M as (d & dev & A & B). exists d, dev. split; [apply in_or_app; auto|exact B]. }
  destruct M as (Mn & Me & Mf).
  assert (Cn : c <> o) by congruence.
  pose proof (cond_check_eq c o s cev oev all ops n Hc Ho Oc Kc Cn) as EQ. cbv zeta in EQ.
  set (s0 := if is_failed oev then upd_event o ev_set_defused s else s) in *.
  assert (Hc0 : get_event c s0 = Some cev).
  { subst s0. destruct (is_failed oev); [rewrite get_upd_other by exact Cn|]; exact Hc. }
  set (cev' := check_upd all ops n (out oev) cev).
  assert (Hc1 : get_event c (cond_check c o s) = Some cev').
  { rewrite EQ. destruct (check_triggers _ _ _ _); rewrite ?get_schedule; apply get_upd_same, Hc0. }
  assert (Ccb : cbs cev' = Some []).
  { unfold cev', check_upd. destruct (out oev) as [[?|?]|]; [destruct (cond_evaluate all (length ops) (S n))| |destruct (cond_evaluate all (length ops) (S n))]; exact Cc. }
  assert (Ck : kind cev' = KCond all ops (S n)).
  { unfold cev', check_upd. destruct (out oev) as [[?|?]|]; [destruct (cond_evaluate all (length ops) (S n))| |destruct (cond_evaluate all (length ops) (S n))]; reflexivity. }
  exists cev', (S n). split; [exact Hc1|]. split; [exact Ccb|]. split; [exact Ck|]. split; [rewrite PP; lia|].
  unfold cev', check_upd. destruct (out oev) as [[v|x]|] eqn:Oo.
  - destruct (cond_evaluate all (length ops) (S n)) eqn:Ev; cbn [out ev_set_out ev_set_kind]; [auto|].
    rewrite Oc. split; [rewrite PP; lia|]. split; [reflexivity|].
    intros d dev Hd Hg Cb. apply in_app_or in Hd. destruct Hd as [Hd|[<-|[]]].
    + destruct (Keep2 _ _ (Nd _ Hd) Hg) as (dev0 & H0 & O0 & C0). unfold is_failed. rewrite O0. eapply Mf; eauto.
    + destruct (Keep2 _ _ No Hg) as (dev0 & H0 & O0 & C0). rewrite Ho in H0. injection H0 as <-.
      unfold is_failed. rewrite O0, Oo. reflexivity.
  - cbn [out ev_set_out ev_set_kind].
    assert (F : is_failed oev = true) by (unfold is_failed; rewrite Oo; reflexivity).
    exists o, (ev_set_defused oev). split; [apply in_or_app; right; left; reflexivity|].
    split.
    + rewrite EQ. unfold check_triggers. rewrite get_schedule, get_upd_other by congruence.
      unfold s0. rewrite F. apply get_upd_same, Ho.
    + cbn. unfold is_processed in Pr. destruct (cbs oev); [discriminate|]. auto.
  - destruct (cond_evaluate all (length ops) (S n)) eqn:Ev; cbn [out ev_set_out ev_set_kind]; [auto|].
    rewrite Oc. split; [rewrite PP; lia|]. split; [reflexivity|].
    intros d dev Hd Hg Cb. apply in_app_or in Hd. destruct Hd as [Hd|[<-|[]]].
    + destruct (Keep2 _ _ (Nd _ Hd) Hg) as (dev0 & H0 & O0 & C0). unfold is_failed. rewrite O0. eapply Mf; eauto.
    + destruct (Keep2 _ _ No Hg) as (dev0 & H0 & O0 & C0). rewrite Ho in H0. injection H0 as <-.
      unfold is_failed. rewrite O0, Oo. reflexivity.
Qed.

Lemma cond_subscribe_cons c o t s : cond_subscribe c (o :: t) s = cond_subscribe c t (cond_subscribe c [o] s).
Proof. reflexivity. Qed.

Lemma CS_sub c all ops : forall l s done,
  (forall o, In o l -> o <> c) -> (forall d, In d done -> d <> c) -> CS s c all ops done ->
  CS (cond_subscribe c l s) c all ops (done ++ l).
Proof.
  induction l as [|o t IH]; intros s done Hl Hd H.
  - rewrite app_nil_r. exact H.
  - rewrite cond_subscribe_cons. replace (done ++ o :: t) with ((done ++ [o]) ++ t) by (rewrite <- app_assoc; reflexivity).
    apply IH.
    + intros o' Ho'. apply Hl. right. exact Ho'.
    + intros d Hd'. apply in_app_or in Hd'. destruct Hd' as [Hd'|[<-|[]]]; [auto|apply Hl; left; reflexivity].
    + apply CS_step; auto. apply Hl. left. reflexivity.
Qed.

(* the agenda after _check / the subscription loop: only entries for the condition are added, and only when it is triggered *)
Definition agenda_ext (c : evid) (s s' : state) : Prop :=
  exists ext, agenda s' = agenda s ++ ext /\
    forall x, In x ext -> e_ev x = c /\ exists cev, get_event c s' = Some cev /\ out cev <> None.

Lemma agenda_cond_check c o s : agenda_ext c s (cond_check c o s).
Proof.
  destruct (cond_check_cases c o s) as [->|(cev & oev & all & ops & n & Hc & Ho & Oc & Kc)].
  { exists []. rewrite app_nil_r. split; [reflexivity|intros x []]. }
  unfold cond_check. rewrite Hc, Ho, Oc, Kc.
  assert (T : forall oo s1, get_event c s1 <> None -> agenda s1 = agenda s -> agenda_ext c s (trigger_event c oo s1)).
  { intros oo s1 H1 A. unfold trigger_event. eexists. split; [cbn [agenda schedule upd_event set_events]; rewrite A; reflexivity|].
    intros x [<-|[]]. split; [reflexivity|]. rewrite get_schedule. destruct (get_event c s1) as [e1|] eqn:E1; [|congruence].
    exists (ev_set_out (Some oo) e1). split; [apply get_upd_same, E1|cbn; discriminate]. }
  assert (G1 : get_event c (upd_event c (ev_set_kind (KCond all ops (S n))) s) <> None).
  { rewrite (get_upd_same _ _ _ _ Hc). discriminate. }
  destruct (out oev) as [[v|x]|].
  - destruct (cond_evaluate all (length ops) (S n)); [apply T; [exact G1|reflexivity]|].
    exists []. rewrite app_nil_r. split; [reflexivity|intros x []].
  - apply T; [|reflexivity]. rewrite get_upd. destruct (Nat.eqb c o); [|exact G1]. rewrite (get_upd_same _ _ _ _ Hc). cbn. discriminate.
  - destruct (cond_evaluate all (length ops) (S n)); [apply T; [exact G1|reflexivity]|].
    exists []. rewrite app_nil_r. split; [reflexivity|intros x []].
Qed.

Lemma agenda_ext_trans c s1 s2 s3 :
  agenda_ext c s1 s2 -> agenda_ext c s2 s3 -> grows s2 s3 -> agenda_ext c s1 s3.
Proof.
  intros (e1 & A1 & B1) (e2 & A2 & B2) [G _]. exists (e1 ++ e2). split; [rewrite A2, A1, app_assoc; reflexivity|].
  intros x Hx. apply in_app_or in Hx. destruct Hx as [Hx|Hx]; [|apply B2, Hx].
  destruct (B1 _ Hx) as (E & cev & Hc & Oc). split; [exact E|].
  destruct (G _ _ Hc) as (cev' & Hc' & _ & _ & O' & _). exists cev'. auto.
Qed.

Lemma agenda_cond_subscribe c l : forall s, agenda_ext c s (cond_subscribe c l s).
Proof.
  induction l as [|o t IH]; intros s.
  - exists []. rewrite app_nil_r. split; [reflexivity|intros x []].
  - rewrite cond_subscribe_cons. eapply agenda_ext_trans; [|apply IH|apply grows_cond_subscribe].
    cbn [cond_subscribe]. destruct (get_event o s) as [oev|].
    + destruct (is_processed oev); [apply agenda_cond_check|]. exists []. rewrite app_nil_r. split; [reflexivity|intros x []].
    + exists []. rewrite app_nil_r. split; [reflexivity|intros x []].
Qed.

Lemma sub_is_proc c l s e : (forall o, In o l -> o <> c) -> e <> c -> is_proc (cond_subscribe c l s) e = is_proc s e.
Proof.
  intros Hl Ne. unfold is_proc. destruct (get_event e s) as [ev|] eqn:He.
  - destruct (sub_frame c l s Hl e ev Ne He) as (ev' & He' & _ & _ & _ & _ & C).
    rewrite He'. unfold is_processed. rewrite C. destruct (cbs ev); reflexivity.
  - assert (L : (length (events s) <= e)%nat) by (apply nth_error_None; exact He).
    rewrite get_ge; [reflexivity|]. rewrite length_cond_subscribe. exact L.
Qed.

Lemma all_valid_lt es s : all_valid es s = true -> forall o, In o es -> (o < length (events s))%nat.
Proof.
  unfold all_valid. rewrite forallb_forall. intros H o Ho. specialize (H o Ho).
  destruct (get_event o s) eqn:E; [eapply get_lt, E|discriminate].
Qed.

(* what Condition.__init__ leaves behind *)
Record cond_made (s s' : state) (all : bool) (es : list evid) : Prop := mkMade {
  cm_len : length (events s') = S (length (events s));
  cm_procs : procs s' = procs s;
  cm_old : forall e ev, get_event e s = Some ev -> exists ev', get_event e s' = Some ev' /\ kind ev' = kind ev /\
      out ev' = out ev /\ (defused ev = true -> defused ev' = true) /\
      (defused ev' = true -> defused ev = true \/ (In e es /\ cbs ev = None /\ is_failed ev = true)) /\
      cbs ev' = match cbs ev with None => None
                | Some l0 => Some (l0 ++ repeat (CbCheck (length (events s))) (occ e es)) end;
  cm_new : exists cev n, get_event (length (events s)) s' = Some cev /\ kind cev = KCond all es n /\
      cbs cev = Some (match es with [] => [] | _ => [CbBuild (length (events s))] end) /\
      (n <= procpos s es)%nat /\
      match out cev with
      | None => es <> [] /\ n = procpos s es /\ cond_evaluate all (length es) n = false /\
                (forall o oev, In o es -> get_event o s = Some oev -> cbs oev = None -> is_failed oev = false)
      | Some (Ok v) => cond_evaluate all (length es) n = true
      | Some (Fail x) => exists o oev, In o es /\ get_event o s' = Some oev /\ cbs oev = None /\ defused oev = true /\
                                       out oev = Some (Fail x)
      end;
  cm_agenda : agenda_ext (length (events s)) s s' }.

Lemma cond_evaluate_nil all : cond_evaluate all 0 0 = true.
Proof. destruct all; reflexivity. Qed.
Lemma cond_evaluate_zero all n : n <> 0%nat -> cond_evaluate all n 0 = false.
Proof. intros H. destruct all; cbn; destruct n; try congruence; reflexivity. Qed.

Lemma call_cond_spec all es s : all_valid es s = true -> cond_made s (fst (call_cond all es s)) all es.
Proof.
  intros V. pose proof (all_valid_lt _ _ V) as Lt.
  unfold call_cond. rewrite V. cbn [negb].
  set (c := length (events s)).
  set (EV := mkEvent (Some []) None false (KCond all es 0)).
  rewrite (new_event_eq EV s). cbv beta iota. fold c.
  set (s1 := snd (new_event EV s)).
  assert (G1 : forall e ev, get_event e s = Some ev -> get_event e s1 = Some ev).
  { intros e ev H. unfold s1. rewrite get_new_old; [exact H|eapply get_lt, H]. }
  assert (Gc : get_event c s1 = Some EV) by apply get_new_new.
  destruct es as [|e0 t].
  - (* no operands: succeed at once *)
    cbn [fst]. unfold trigger_event. constructor.
    + cbn [events schedule]. rewrite upd_event_length. apply new_event_length.
    + reflexivity.
    + intros e ev H. exists ev. rewrite get_schedule, get_upd_other by (apply get_lt in H; fold c in H; lia).
      split; [apply G1, H|]. repeat split; auto. destruct (cbs ev); [rewrite app_nil_r|]; reflexivity.
    + exists (ev_set_out (Some (Ok (VCond []))) EV), 0%nat. rewrite get_schedule.
      split; [apply get_upd_same, Gc|]. cbn. repeat split; auto. apply cond_evaluate_nil.
    + eexists. split; [cbn [agenda schedule upd_event set_events]; reflexivity|].
      intros x [<-|[]]. split; [reflexivity|]. rewrite get_schedule. eexists. split; [apply get_upd_same, Gc|cbn; discriminate].
  - (* subscription loop, then the _build_value callback *)
    cbn [fst]. set (es := e0 :: t) in *. assert (Ees : es = e0 :: t) by reflexivity.
    assert (Nn : es <> []) by (rewrite Ees; discriminate).
    assert (Hne : forall o, In o es -> o <> c) by (intros o Ho; apply Lt in Ho; fold c in Ho; lia).
    set (s2 := cond_subscribe c es s1).
    assert (CS0 : CS s1 c all es []).
    { exists EV, 0%nat. split; [exact Gc|]. split; [reflexivity|]. split; [reflexivity|]. split; [cbn; lia|].
      cbn [out EV]. split; [reflexivity|]. split; [|intros o oev []].
      apply cond_evaluate_zero. rewrite Ees. cbn. discriminate. }
    pose proof (CS_sub c all es es s1 [] Hne (fun d (H : In d []) => match H with end) CS0) as CS2.
    cbn [app] in CS2. fold s2 in CS2.
    assert (PP : forall s', (forall o, In o es -> is_proc s' o = is_proc s o) -> procpos s' es = procpos s es).
    { intros s' H. apply procpos_ext, H. }
    assert (IP : forall o, In o es -> is_proc s2 o = is_proc s o).
    { intros o Ho. unfold s2. rewrite sub_is_proc by auto. unfold is_proc, s1. rewrite get_new_old by (apply Lt, Ho). reflexivity. }
    constructor.
    + unfold add_callback. rewrite upd_event_length. unfold s2. rewrite length_cond_subscribe. apply new_event_length.
    + unfold add_callback. cbn [procs upd_event set_events]. unfold s2. rewrite procs_cond_subscribe. reflexivity.
    + intros e ev H. assert (Ne : e <> c) by (apply get_lt in H; fold c in H; lia).
      destruct (sub_frame c es s1 Hne e ev Ne (G1 _ _ H)) as (ev' & He' & A).
      exists ev'. unfold add_callback. rewrite get_upd_other by exact Ne. split; [exact He'|exact A].
    + destruct CS2 as (cev & n & Hc & Cc & Kc & Le & M).
      exists (ev_add_cb (CbBuild c) cev), n. unfold add_callback. split; [apply get_upd_same, Hc|].
      unfold ev_add_cb. rewrite Cc. cbn [kind cbs out ev_set_cbs app]. split; [exact Kc|].
      split; [rewrite Ees; reflexivity|]. rewrite (PP s2 IP) in *. split; [exact Le|].
      destruct (out cev) as [[v|x]|].
      * apply M.
      * destruct M as (o & oev & Io & Ho & Co & Do & Oo). exists o, oev. rewrite get_upd_other by (apply Hne, Io). auto.
      * destruct M as (Mn & Me & Mf). split; [exact Nn|]. split; [exact Mn|]. split; [exact Me|].
        intros o oev Io Ho Co. destruct (sub_frame c es s1 Hne o oev (Hne _ Io) (G1 _ _ Ho)) as (oev' & Ho' & _ & O' & _ & _ & C').
        fold s2 in Ho'. rewrite Co in C'. specialize (Mf o oev' Io Ho' C'). unfold is_failed in *. rewrite <- O'. exact Mf.
    + destruct (agenda_cond_subscribe c es s1) as (ext & A & B). fold s2 in A, B.
      exists ext. split; [exact A|]. intros x Hx. destruct (B _ Hx) as (E & cev & Hc & Oc). split; [exact E|].
      exists (ev_add_cb (CbBuild c) cev). unfold add_callback. split; [apply get_upd_same, Hc|].
      unfold ev_add_cb. destruct (cbs cev); exact Oc.
Qed.

Lemma cbcount_repeat_same d k : cbcount d (repeat d k) = k.
Proof. induction k; [reflexivity|]. cbn [repeat]. rewrite cbcount_cons, cb_eqb_refl, IHk. reflexivity. Qed.
Lemma cbcount_repeat_other d d' k : d <> d' -> cbcount d (repeat d' k) = 0%nat.
Proof. intros N. apply cbcount_notin. intros H. apply repeat_spec in H. congruence. Qed.

Lemma made_old_inv s s' all es e ev' :
  cond_made s s' all es -> get_event e s' = Some ev' -> e <> length (events s) ->
  exists ev, get_event e s = Some ev /\ kind ev' = kind ev /\ out ev' = out ev /\
    (defused ev = true -> defused ev' = true) /\
    cbs ev' = match cbs ev with None => None
              | Some l0 => Some (l0 ++ repeat (CbCheck (length (events s))) (occ e es)) end.
Proof.
  intros M H N. pose proof (get_lt _ _ _ H) as L. rewrite (cm_len _ _ _ _ M) in L.
  assert (L' : (e < length (events s))%nat) by lia.
  destruct (get_event e s) as [ev|] eqn:E; [|apply nth_error_None in E; lia].
  destruct (cm_old _ _ _ _ M _ _ E) as (ev2 & H2 & A & B & C & _ & D). rewrite H in H2. injection H2 as <-.
  exists ev. auto.
Qed.

Lemma cinv_call_cond X all es s : cinv X s -> all_valid es s = true -> cinv X (fst (call_cond all es s)).
Proof.
  intros CI V. pose proof (call_cond_spec all es s V) as M. pose proof (all_valid_lt _ _ V) as Lt.
  set (s' := fst (call_cond all es s)) in *. set (c := length (events s)) in *.
  destruct (cm_new _ _ _ _ M) as (cev & n & Hc & Kc & Cc & Le & Mo). fold c in Hc, Cc.
  assert (Cl : forall e ev', get_event e s' = Some ev' ->
            (e = c /\ ev' = cev) \/ (e <> c /\ exists ev, get_event e s = Some ev /\ kind ev' = kind ev /\ out ev' = out ev /\
               (defused ev = true -> defused ev' = true) /\
               cbs ev' = match cbs ev with None => None | Some l0 => Some (l0 ++ repeat (CbCheck c) (occ e es)) end)).
  { intros e ev' H. destruct (Nat.eq_dec e c) as [->|N]; [left; split; [reflexivity|congruence]|].
    right. split; [exact N|]. eapply made_old_inv; eassumption. }
  assert (Fresh : forall o oev l, get_event o s = Some oev -> cbs oev = Some l -> cbcount (CbCheck c) l = 0%nat).
  { intros o oev l Ho Co. apply cbcount_notin. intros Hin.
    destruct (ci_check _ _ CI _ _ _ _ Ho Co Hin) as (x & _ & _ & _ & Hx & _). apply get_lt in Hx. unfold c in Hx. lia. }
  constructor.
  - intros x Hx. destruct (cm_agenda _ _ _ _ M) as (ext & A & B). rewrite A in Hx. apply in_app_or in Hx.
    destruct Hx as [Hx|Hx].
    + destruct (ci_agenda _ _ CI _ Hx) as (ev & He & Oe). destruct (cm_old _ _ _ _ M _ _ He) as (ev' & He' & _ & O' & _).
      exists ev'. split; [exact He'|congruence].
    + destruct (B _ Hx) as (-> & cev' & Hc' & Oc'). exists cev'. auto.
  - intros d dev all' ops n' Hd Kd o Io. destruct (Cl _ _ Hd) as [[-> ->]|(N & ev & He & K & _)].
    + rewrite Kc in Kd. injection Kd as <- <- <-. apply Lt, Io.
    + rewrite K in Kd. eapply ci_older; eassumption.
  - intros e ev' He Ce. destruct (Cl _ _ He) as [[-> ->]|(N & ev & He0 & _ & O & _ & C)].
    + rewrite Cc in Ce. discriminate.
    + rewrite O. eapply ci_proc_trig; [exact CI|exact He0|]. rewrite C in Ce. destruct (cbs ev); [discriminate|reflexivity].
  - intros o oev l d Ho Co Hin. destruct (Cl _ _ Ho) as [[-> ->]|(N & ev & He0 & _ & _ & _ & C)].
    + rewrite Cc in Co. injection Co as <-. destruct es; [destruct Hin|destruct Hin as [H|[]]; discriminate].
    + rewrite C in Co. destruct (cbs ev) as [l0|] eqn:C0; [|discriminate]. injection Co as <-.
      destruct (Nat.eq_dec d c) as [->|Nd].
      * exists cev, all, es, n. split; [exact Hc|]. split; [exact Kc|].
        rewrite cbcount_app, (Fresh _ _ _ He0 C0), cbcount_repeat_same. lia.
      * apply in_app_or in Hin. destruct Hin as [Hin|Hin]; [|apply repeat_spec in Hin; congruence].
        destruct (ci_check _ _ CI _ _ _ _ He0 C0 Hin) as (dev & a & ops & m & Hd & Kd & Ld).
        destruct (cm_old _ _ _ _ M _ _ Hd) as (dev' & Hd' & Kd' & _). exists dev', a, ops, m.
        split; [exact Hd'|]. split; [congruence|]. rewrite cbcount_app, cbcount_repeat_other by congruence. lia.
  - intros e ev' l d He Ce Hin. destruct (Cl _ _ He) as [[-> ->]|(N & ev & He0 & _ & _ & _ & C)].
    + rewrite Cc in Ce. injection Ce as <-. destruct es; [destruct Hin|].
      destruct Hin as [H|[]]. injection H as <-. split; [reflexivity|]. split; [reflexivity|].
      rewrite cbcount_cons, cb_eqb_refl. reflexivity.
    + rewrite C in Ce. destruct (cbs ev) as [l0|] eqn:C0; [|discriminate]. injection Ce as <-.
      apply in_app_or in Hin. destruct Hin as [Hin|Hin]; [|apply repeat_spec in Hin; discriminate].
      destruct (ci_build _ _ CI _ _ _ _ He0 C0 Hin) as (-> & Hd & Cn). split; [reflexivity|]. split.
      * destruct l0; cbn in *; [discriminate|exact Hd].
      * rewrite cbcount_app, cbcount_repeat_other by discriminate. lia.
  - intros d dev a ops m l Hd Kd Cd Ne. destruct (Cl _ _ Hd) as [[-> ->]|(N & ev & He0 & K & _ & _ & C)].
    + rewrite Kc in Kd. injection Kd as <- <- <-. rewrite Cc in Cd. injection Cd as <-.
      destruct es; [congruence|left; reflexivity].
    + rewrite C in Cd. destruct (cbs ev) as [l0|] eqn:C0; [|discriminate]. injection Cd as <-.
      apply in_or_app. left. rewrite K in Kd. eapply ci_build_head; eassumption.
  - intros d dev a ops m Hd Kd Od. destruct (Cl _ _ Hd) as [[-> ->]|(N & ev & He0 & K & O & _)].
    + rewrite Kc in Kd. injection Kd as <- <- <-. rewrite Od in Mo. apply Mo.
    + rewrite K in Kd. rewrite O in Od. eapply ci_pending; eassumption.
  - intros d dev a ops m Hd Kd NX. destruct (Cl _ _ Hd) as [[-> ->]|(N & ev & He0 & K & O & _)].
    + rewrite Kc in Kd. injection Kd as <- <- <-. unfold justified. destruct (out cev) as [[v|x]|]; auto.
      destruct Mo as (o & oev & Io & Ho & Co & Do & _). exists o, oev. auto.
    + rewrite K in Kd. pose proof (ci_just _ _ CI _ _ _ _ _ He0 Kd NX) as J. unfold justified in *. rewrite O.
      destruct (out ev) as [[v|x]|]; auto. destruct J as (o & oev & Io & Ho & Co & Do).
      destruct (cm_old _ _ _ _ M _ _ Ho) as (oev' & Ho' & _ & _ & D' & _ & C'). exists o, oev'.
      split; [exact Io|]. split; [exact Ho'|]. split; [rewrite C', Co; reflexivity|auto].
Qed.

(* ------------------------------------------------------------------------------------------------ *)
(* every primitive preserves the state invariant *)

Lemma get_init e t0 : get_event e (init_state t0) = None.
Proof. unfold get_event. cbn. destruct e; reflexivity. Qed.

Lemma cinv_init X t0 : cinv X (init_state t0).
Proof.
  constructor.
  - intros x [].
  - intros c cev all ops n H. rewrite get_init in H. discriminate.
  - intros e ev H. rewrite get_init in H. discriminate.
  - intros o oev l c H. rewrite get_init in H. discriminate.
  - intros e ev l c H. rewrite get_init in H. discriminate.
  - intros c cev all ops n l H. rewrite get_init in H. discriminate.
  - intros c cev all ops n H. rewrite get_init in H. discriminate.
  - intros c cev all ops n H. rewrite get_init in H. discriminate.
Qed.

Lemma iprim_cinv X x s s' : cinv X s -> iprim x s s' -> cinv (X ++ lab x) s'.
Proof.
  intros CI P. destruct P; cbn [lab]; rewrite ?app_nil_r.
  - destruct H as (E & _ & A). eapply cinv_same_events; [exact CI|exact E|]. intros y Hy. left. rewrite <- A. exact Hy.
  - apply cinv_new_plain; [exact CI|exact H|]. destruct H as ((l & C & _) & _). congruence.
  - eapply cinv_schedule; eassumption.
  - unfold add_callback. destruct (get_event e s) as [ev|] eqn:He; [|rewrite upd_event_none by exact He; exact CI].
    eapply cinv_upd; [exact CI|apply incl_refl|exact He|]. apply ok_add_cb; [exact H|]. intros C. eapply ci_proc_trig; eassumption.
  - eapply cinv_upd; [exact CI|apply incl_refl|exact H|]. apply ok_set_cbs; [exact H0|]. destruct c; auto.
  - eapply cinv_upd; [exact CI|apply incl_appl, incl_refl|exact H|]. apply ok_set_out. intros _. right.
    split; [exact H0|]. apply in_or_app. right. left. reflexivity.
  - eapply cinv_upd; [exact CI|apply incl_refl|exact H|]. apply ok_set_out. unfold is_cond. rewrite H0. discriminate.
  - destruct (get_event e s) as [ev|] eqn:He; [|rewrite upd_event_none by exact He; exact CI].
    eapply cinv_upd; [exact CI|apply incl_refl|exact He|]. apply ok_set_defused. intros C. eapply ci_proc_trig; eassumption.
  - eapply cinv_same_events; [exact CI|reflexivity|]. intros y Hy. left. exact Hy.
  - apply cinv_call_cond; assumption.
Qed.

Lemma cinv_popped X m rest s : cinv X s -> pop_min (agenda s) = Some (m, rest) -> cinv X (popped m rest s).
Proof.
  intros CI Pm. destruct (pop_min_spec _ _ _ Pm) as (Im & Er & _).
  destruct (ci_agenda _ _ CI _ Im) as (ev & He & Oe).
  assert (CI1 : cinv X (pop_state m rest s)).
  { eapply cinv_same_events; [exact CI|reflexivity|]. intros y Hy. left. cbn in Hy. rewrite Er in Hy.
    eapply remove_eid_subset, Hy. }
  unfold popped. eapply cinv_upd; [exact CI1|apply incl_refl|exact He|]. apply ok_set_processed, Oe.
Qed.

Lemma prim_cinv X x s s' : cinv X s -> prim x s s' -> cinv (X ++ lab x) s'.
Proof.
  intros CI P. destruct P.
  - eapply iprim_cinv; eassumption.
  - cbn [lab]. rewrite app_nil_r. apply cinv_popped; assumption.
  - cbn [lab]. rewrite app_nil_r. eapply cinv_cond_check; eassumption.
  - cbn [lab]. rewrite app_nil_r. apply cinv_cond_build, CI.
Qed.

Lemma ptrace_cinv X0 X s s' : ptrace X s s' -> cinv X0 s -> cinv (X0 ++ X) s'.
Proof.
  intros T. revert X0. induction T as [|x X s s1 s2 P T IH]; intros X0 CI; [rewrite app_nil_r; exact CI|].
  rewrite app_assoc. apply IH. eapply prim_cinv; eassumption.
Qed.

Theorem reach_cinv codes X s : reach codes X s -> cinv X s.
Proof.
  intros (t0 & H). change X with ([] ++ X). eapply ptrace_cinv; [eapply etrace_ptrace, H|apply cinv_init].
Qed.

Lemma xtrace_cinv codes X0 X s s' : xtrace codes X s s' -> cinv X0 s -> cinv (X0 ++ X) s'.
Proof. intros T. apply ptrace_cinv. eapply xtrace_ptrace, T. Qed.

Lemma steps_cinv s s' X : steps s s' -> cinv X s -> exists X', cinv (X ++ X') s'.
Proof. intros [X' T] CI. exists X'. eapply ptrace_cinv; eassumption. Qed.

(* ------------------------------------------------------------------------------------------------ *)
(* the counting invariant, relative to the callbacks [l] of the popped event [e] still to be run *)

(* c has been detached by an enclosing condition d that was processed (_remove_check_callbacks is recursive) *)
Definition detached (s : state) (c : evid) : Prop := exists d, desc s d c /\ d <> c /\ is_proc s d = true.

Definition attached (s : state) (c : evid) (ops : list evid) : Prop :=
  forall o oev lo, get_event o s = Some oev -> cbs oev = Some lo -> cbcount (CbCheck c) lo = occ o ops.

Definition nofail (l : list cb) (e : evid) (s : state) (c : evid) (ops : list evid) : Prop :=
  forall o oev, In o ops -> get_event o s = Some oev -> cbs oev = None -> is_failed oev = true ->
                (exists q, kind oev = KProcess q) \/ (o = e /\ In (CbCheck c) l).

Definition binv (l : list cb) (e : evid) (s : state) : Prop :=
  forall c cev all ops n, get_event c s = Some cev -> kind cev = KCond all ops n ->
    (n + cbcount (CbCheck c) l <= procpos s ops)%nat /\
    (out cev = None -> detached s c \/
       (attached s c ops /\ (n + cbcount (CbCheck c) l)%nat = procpos s ops /\ nofail l e s c ops)).

(* the callbacks in flight belong to e: every _check in l is the _check of a condition having e as operand, a
   _build_value in l is e's own *)
Definition chk_ok (s : state) (e c : evid) : Prop :=
  exists cev all ops n, get_event c s = Some cev /\ kind cev = KCond all ops n /\ In e ops.

Definition wl (l : list cb) (e : evid) (s : state) : Prop :=
  (forall c, In (CbCheck c) l -> chk_ok s e c) /\ (forall c, In (CbBuild c) l -> c = e).

Lemma chk_ok_opnd s e c : chk_ok s e c -> opnd s c e.
Proof. intros (cev & all & ops & n & H & K & I) cev' all' ops' n' H' K'. rewrite H in H'. injection H' as <-. rewrite K in K'. injection K' as <- <- <-. exact I. Qed.

Lemma chk_ok_grows s s' e c : grows s s' -> chk_ok s e c -> chk_ok s' e c.
Proof.
  intros [G _] (cev & all & ops & n & H & K & I). destruct (G _ _ H) as (cev' & H' & KL & _).
  destruct (kind_le_cond_fwd _ _ _ _ _ KL K) as (n' & K' & _). exists cev', all, ops, n'. auto.
Qed.

Lemma wl_grows l e s s' : grows s s' -> wl l e s -> wl l e s'.
Proof. intros G [W1 W2]. split; [intros c H; eapply chk_ok_grows; eauto|exact W2]. Qed.

Lemma wl_tail cb l e s : wl (cb :: l) e s -> wl l e s.
Proof. intros [W1 W2]. split; intros c H; [apply W1|apply W2]; right; exact H. Qed.

Lemma wl_nil e s : wl [] e s. Proof. split; intros c []. Qed.

(* stability of the ingredients *)
Lemma is_proc_grows s s' o : grows s s' -> is_proc s o = true -> is_proc s' o = true.
Proof. intros G H. apply is_proc_iff. eapply grows_processed; [exact G|]. apply is_proc_iff, H. Qed.

Lemma desc_grows s s' c d : grows s s' -> desc s c d -> desc s' c d.
Proof.
  intros [G _] H. induction H as [|d dev all ops n o H IH Hd Kd Io]; [constructor|].
  destruct (G _ _ Hd) as (dev' & Hd' & KL & _). destruct (kind_le_cond_fwd _ _ _ _ _ KL Kd) as (n' & K' & _).
  eapply desc_step; [exact IH|exact Hd'|exact K'|exact Io].
Qed.

Lemma detached_grows s s' c : grows s s' -> detached s c -> detached s' c.
Proof. intros G (d & D & N & P). exists d. split; [eapply desc_grows; eauto|]. split; [exact N|eapply is_proc_grows; eauto]. Qed.

(* dropping a callback that is not a _check from the list in flight *)
Lemma binv_drop cb l e s : (forall c, cb <> CbCheck c) -> binv (cb :: l) e s -> binv l e s.
Proof.
  intros N B c cev all ops n Hc Kc. destruct (B _ _ _ _ _ Hc Kc) as (B1 & B2).
  assert (E : cbcount (CbCheck c) (cb :: l) = cbcount (CbCheck c) l).
  { rewrite cbcount_cons. assert (X : cb_eqb (CbCheck c) cb = false) by (apply cb_eqb_neq; intros H; apply (N c); auto). rewrite X. reflexivity. }
  rewrite E in *. split; [exact B1|]. intros O. destruct (B2 O) as [D|(A & Q & F)]; [left; exact D|right].
  split; [exact A|]. split; [exact Q|]. intros o oev Io Ho Co Fo. destruct (F _ _ Io Ho Co Fo) as [K|(-> & [H|H])]; auto.
  exfalso. apply (N c). exact H.
Qed.

Lemma kinds_eq_desc s s' c d : kinds_eq s s' -> desc s' c d -> desc s c d.
Proof. intros K. apply desc_kinds_eq, kinds_eq_sym, K. Qed.

(* a change of one event that keeps kinds, processedness and the numbers of _check callbacks *)
Lemma binv_upd X l e s e0 f ev :
  cinv X s -> binv l e s -> get_event e0 s = Some ev ->
  kind (f ev) = kind ev -> (cbs ev = None <-> cbs (f ev) = None) ->
  (forall l0 l1, cbs ev = Some l0 -> cbs (f ev) = Some l1 -> forall c, cbcount (CbCheck c) l1 = cbcount (CbCheck c) l0) ->
  (ostat (out (f ev)) = ostat (out ev) \/ out ev = None \/ exists q, kind ev = KProcess q) ->
  binv l e (upd_event e0 f s).
Proof.
  intros CI B He Uk Uc Ul Uo.
  set (s' := upd_event e0 f s).
  assert (G : forall e1 ev1', get_event e1 s' = Some ev1' ->
                (e1 = e0 /\ ev1' = f ev) \/ (e1 <> e0 /\ get_event e1 s = Some ev1')).
  { intros e1 ev1'. unfold s'. rewrite get_upd. destruct (Nat.eqb e1 e0) eqn:E.
    - apply Nat.eqb_eq in E. subst e1. rewrite He. cbn. intros H; injection H as <-. left; auto.
    - apply Nat.eqb_neq in E. intros H. right; auto. }
  assert (KE : kinds_eq s s').
  { intros e1. unfold s'. rewrite get_upd. destruct (Nat.eqb e1 e0) eqn:E; [|reflexivity].
    apply Nat.eqb_eq in E. subst e1. rewrite He. cbn. rewrite Uk. reflexivity. }
  assert (IP : forall o, is_proc s' o = is_proc s o).
  { intros o. unfold is_proc, s'. rewrite get_upd. destruct (Nat.eqb o e0) eqn:E; [|reflexivity].
    apply Nat.eqb_eq in E. subst o. rewrite He. cbn. unfold is_processed.
    destruct (cbs ev) eqn:C1, (cbs (f ev)) eqn:C2; try reflexivity.
    - destruct Uc as [_ U]. specialize (U eq_refl). discriminate.
    - destruct Uc as [U _]. specialize (U eq_refl). discriminate. }
  assert (PPe : forall ops, procpos s' ops = procpos s ops) by (intros; apply procpos_ext; intros; apply IP).
  assert (DT : forall c, detached s c -> detached s' c).
  { intros c (d & D & N & P). exists d. split; [eapply desc_kinds_eq; eauto|]. split; [exact N|rewrite IP; exact P]. }
  intros c cev' all ops n Hc Kc.
  assert (Old : exists cev, get_event c s = Some cev /\ kind cev = KCond all ops n /\ (out cev' = None -> out cev = None)).
  { destruct (G _ _ Hc) as [[-> ->]|[_ Hc']].
    - exists ev. split; [exact He|]. split; [congruence|]. intros O.
      destruct Uo as [E|[E|(q & E)]]; [rewrite O in E; destruct (out ev) as [[?|?]|]; cbn in E; congruence|exact E|rewrite Uk in Kc; congruence].
    - exists cev'. auto. }
  destruct Old as (cev & Hc0 & Kc0 & Oc0). destruct (B _ _ _ _ _ Hc0 Kc0) as (B1 & B2).
  rewrite PPe. split; [exact B1|]. intros O. destruct (B2 (Oc0 O)) as [D|(A & Q & F)]; [left; apply DT, D|right].
  split; [|split; [exact Q|]].
  - intros o oev' lo Ho Co. destruct (G _ _ Ho) as [[-> ->]|[_ Ho']].
    + destruct (cbs ev) as [l0|] eqn:C0.
      * rewrite (Ul _ _ eq_refl Co). eapply A; eassumption.
      * destruct Uc as [U _]. specialize (U eq_refl). congruence.
    + eapply A; eassumption.
  - intros o oev' Io Ho Co Fo. destruct (G _ _ Ho) as [[-> ->]|[_ Ho']].
    + assert (C0 : cbs ev = None) by (apply Uc, Co).
      destruct Uo as [E|[E|(q & E)]].
      * rewrite Uk. eapply F; try eassumption. unfold is_failed in *.
        destruct (out (f ev)) as [[?|?]|], (out ev) as [[?|?]|]; cbn in E; congruence.
      * exfalso. exact (ci_proc_trig _ _ CI _ _ He C0 E).
      * left. exists q. congruence.
    + eapply F; eassumption.
Qed.

Lemma binv_same_events l e s s' : events s' = events s -> binv l e s -> binv l e s'.
Proof.
  intros E B.
  assert (G : forall x, get_event x s' = get_event x s) by (intros; unfold get_event; rewrite E; reflexivity).
  assert (IP : forall o, is_proc s' o = is_proc s o) by (intros; unfold is_proc; rewrite G; reflexivity).
  assert (KE : kinds_eq s s') by (intros x; rewrite G; reflexivity).
  intros c cev all ops n Hc Kc. rewrite G in Hc. destruct (B _ _ _ _ _ Hc Kc) as (B1 & B2).
  rewrite (procpos_ext s s' ops) by (intros; apply IP). split; [exact B1|]. intros O.
  destruct (B2 O) as [(d & D & N & P)|(A & Q & F)].
  - left. exists d. split; [eapply desc_kinds_eq; eauto|]. split; [exact N|rewrite IP; exact P].
  - right. split; [|split; [exact Q|]].
    + intros o oev lo. rewrite G. apply A.
    + intros o oev Io. rewrite G. apply F, Io.
Qed.

Lemma binv_new_plain X l e ev s : cinv X s -> plain_new ev -> binv l e s -> binv l e (snd (new_event ev s)).
Proof.
  intros CI ((l0 & Cl0 & Pl0) & Kn) B.
  set (s' := snd (new_event ev s)).
  assert (GR : grows s s') by apply grows_new.
  assert (G : forall x ev', get_event x s' = Some ev' -> (get_event x s = Some ev') \/ (x = length (events s) /\ ev' = ev)).
  { intros x ev'. unfold s'. rewrite get_new. destruct (Nat.ltb x (length (events s))); [auto|].
    destruct (Nat.eqb x (length (events s))) eqn:E; [|discriminate]. apply Nat.eqb_eq in E. intros H; injection H as <-. auto. }
  intros c cev all ops n Hc Kc. destruct (G _ _ Hc) as [Hc0|[-> ->]]; [|rewrite Kc in Kn; contradiction].
  assert (Lt : forall o, In o ops -> (o < length (events s))%nat).
  { intros o Io. pose proof (ci_older _ _ CI _ _ _ _ _ Hc0 Kc _ Io). apply get_lt in Hc0. lia. }
  assert (PPe : procpos s' ops = procpos s ops).
  { apply procpos_ext. intros o Io. unfold is_proc, s'. rewrite get_new_old by (apply Lt, Io). reflexivity. }
  destruct (B _ _ _ _ _ Hc0 Kc) as (B1 & B2). rewrite PPe. split; [exact B1|]. intros O.
  destruct (B2 O) as [D|(A & Q & F)]; [left; eapply detached_grows; eauto|right].
  split; [|split; [exact Q|]].
  - intros o oev lo Ho Co. destruct (G _ _ Ho) as [Ho0|[-> ->]]; [eapply A; eassumption|].
    rewrite Cl0 in Co. injection Co as <-. rewrite occ_notin by (intros Io; apply Lt in Io; lia).
    apply cbcount_notin. intros Hin. apply Pl0 in Hin. exact Hin.
  - intros o oev Io Ho. destruct (G _ _ Ho) as [Ho0|[-> _]]; [apply F; assumption|apply Lt in Io; lia].
Qed.

Lemma binv_call_cond X l e all es s :
  cinv X s -> wl l e s -> all_valid es s = true -> binv l e s -> binv l e (fst (call_cond all es s)).
Proof.
  intros CI [W1 _] V B. pose proof (call_cond_spec all es s V) as M. pose proof (all_valid_lt _ _ V) as Lt.
  pose proof (grows_call_cond all es s) as GR.
  set (s' := fst (call_cond all es s)) in *. set (c := length (events s)) in *.
  destruct (cm_new _ _ _ _ M) as (cev & n & Hc & Kc & Cc & Le & Mo). fold c in Hc, Cc.
  assert (IP : forall o, (o < c)%nat -> is_proc s' o = is_proc s o).
  { intros o Lo. unfold is_proc. destruct (get_event o s) as [ev|] eqn:E; [|apply nth_error_None in E; unfold c in Lo; lia].
    destruct (cm_old _ _ _ _ M _ _ E) as (ev' & E' & _ & _ & _ & _ & C). rewrite E'. unfold is_processed. rewrite C.
    destruct (cbs ev); reflexivity. }
  assert (Fresh : forall o oev lo, get_event o s = Some oev -> cbs oev = Some lo -> cbcount (CbCheck c) lo = 0%nat).
  { intros o oev lo Ho Co. apply cbcount_notin. intros Hin.
    destruct (ci_check _ _ CI _ _ _ _ Ho Co Hin) as (x & _ & _ & _ & Hx & _). apply get_lt in Hx. unfold c in Hx. lia. }
  assert (FreshL : cbcount (CbCheck c) l = 0%nat).
  { apply cbcount_notin. intros Hin. destruct (W1 _ Hin) as (x & _ & _ & _ & Hx & _). apply get_lt in Hx. unfold c in Hx. lia. }
  intros d dev a ops m Hd Kd. destruct (Nat.eq_dec d c) as [->|Nd].
  - (* the new condition *)
    rewrite Hc in Hd. injection Hd as <-. rewrite Kc in Kd. injection Kd as <- <- <-.
    assert (PPe : procpos s' es = procpos s es) by (apply procpos_ext; intros o Io; apply IP, Lt, Io).
    rewrite PPe, FreshL, Nat.add_0_r. split; [exact Le|]. intros O. rewrite O in Mo. destruct Mo as (Ne & Mn & Me & Mf).
    right. split; [|split; [exact Mn|]].
    + intros o oev lo Ho Co. destruct (Nat.eq_dec o c) as [->|No].
      * rewrite Hc in Ho. injection Ho as <-. rewrite Cc in Co. injection Co as <-.
        rewrite occ_notin by (intros Io; apply Lt in Io; unfold c in Io; lia).
        destruct es; [congruence|reflexivity].
      * destruct (made_old_inv _ _ _ _ _ _ M Ho No) as (ev & He & _ & _ & _ & C). fold c in C. rewrite C in Co.
        destruct (cbs ev) as [l0|] eqn:C0; [|discriminate]. injection Co as <-.
        rewrite cbcount_app, (Fresh _ _ _ He C0), cbcount_repeat_same. reflexivity.
    + intros o oev Io Ho Co Fo. exfalso.
      assert (No : o <> c) by (apply Lt in Io; unfold c; lia).
      destruct (made_old_inv _ _ _ _ _ _ M Ho No) as (ev & He & _ & Oe & _ & C). rewrite C in Co.
      assert (C0 : cbs ev = None) by (destruct (cbs ev); [discriminate|reflexivity]).
      specialize (Mf _ _ Io He C0). unfold is_failed in *. rewrite Oe in Fo. congruence.
  - (* an older condition *)
    destruct (made_old_inv _ _ _ _ _ _ M Hd Nd) as (dev0 & Hd0 & Kd0 & Od0 & _ & _).
    rewrite Kd0 in Kd. destruct (B _ _ _ _ _ Hd0 Kd) as (B1 & B2).
    assert (LtO : forall o, In o ops -> (o < c)%nat).
    { intros o Io. pose proof (ci_older _ _ CI _ _ _ _ _ Hd0 Kd _ Io). apply get_lt in Hd0. unfold c. lia. }
    assert (PPe : procpos s' ops = procpos s ops) by (apply procpos_ext; intros o Io; apply IP, LtO, Io).
    rewrite PPe. split; [exact B1|]. rewrite Od0. intros O.
    destruct (B2 O) as [D|(A & Q & F)]; [left; eapply detached_grows; eauto|right].
    split; [|split; [exact Q|]].
    + intros o oev lo Ho Co. destruct (Nat.eq_dec o c) as [->|No].
      * rewrite Hc in Ho. injection Ho as <-. rewrite Cc in Co. injection Co as <-.
        rewrite occ_notin by (intros Io; apply LtO in Io; lia).
        destruct es; reflexivity.
      * destruct (made_old_inv _ _ _ _ _ _ M Ho No) as (ev & He & _ & _ & _ & C). fold c in C. rewrite C in Co.
        destruct (cbs ev) as [l0|] eqn:C0; [|discriminate]. injection Co as <-.
        rewrite cbcount_app, cbcount_repeat_other by congruence. rewrite Nat.add_0_r. eapply A; eassumption.
    + intros o oev Io Ho Co Fo. assert (No : o <> c) by (apply LtO in Io; lia).
      destruct (made_old_inv _ _ _ _ _ _ M Ho No) as (ev & He & Ke & Oe & _ & C). rewrite C in Co.
      assert (C0 : cbs ev = None) by (destruct (cbs ev); [discriminate|reflexivity]).
      rewrite Ke. apply F; auto. unfold is_failed in *. rewrite <- Oe. exact Fo.
Qed.

(* everything program code / a process resumption does preserves the counting invariant *)
Lemma iprim_binv X l e x s s' : cinv X s -> wl l e s -> iprim x s s' -> binv l e s -> binv l e s'.
Proof.
  intros CI W P B. destruct P.
  - apply (binv_same_events l e s); [apply H|exact B].
  - eapply binv_new_plain; eassumption.
  - apply (binv_same_events l e s); [reflexivity|exact B].
  - unfold add_callback. destruct (get_event e0 s) as [ev|] eqn:He; [|rewrite upd_event_none by exact He; exact B].
    destruct (cbs ev) as [l0|] eqn:C0.
    + eapply binv_upd; [exact CI|exact B|exact He|..]; unfold ev_add_cb; rewrite C0; cbn; auto.
      * split; discriminate.
      * intros l1 l2 H1 H2 c0. injection H1 as <-. injection H2 as <-. rewrite cbcount_app, cbcount_plain_single; [lia|exact H|exact I].
    + rewrite upd_event_id; [exact B|]. intros ev0 H0. rewrite He in H0. injection H0 as <-. unfold ev_add_cb. rewrite C0. reflexivity.
  - eapply binv_upd; [exact CI|exact B|exact H|..]; cbn; auto.
    + rewrite H0. split; discriminate.
    + intros l1 l2 H3 H4 c0. rewrite H0 in H3. injection H3 as <-. injection H4 as <-.
      apply cbcount_remove_other. destruct c; try discriminate; contradiction.
  - eapply binv_upd; [exact CI|exact B|exact H|..]; cbn; auto; try tauto.
    intros l1 l2 H3 H4 c0. rewrite H3 in H4. injection H4 as <-. reflexivity.
  - eapply binv_upd; [exact CI|exact B|exact H|..]; cbn; auto; try tauto.
    + intros l1 l2 H3 H4 c0. rewrite H3 in H4. injection H4 as <-. reflexivity.
    + right. right. exists q. exact H0.
  - destruct (get_event e0 s) as [ev|] eqn:He; [|rewrite upd_event_none by exact He; exact B].
    eapply binv_upd; [exact CI|exact B|exact He|..]; cbn; auto; try tauto.
    intros l1 l2 H3 H4 c0. rewrite H3 in H4. injection H4 as <-. reflexivity.
  - apply (binv_same_events l e s); [reflexivity|exact B].
  - eapply binv_call_cond; eassumption.
Qed.

(* ---- the kernel's own steps ---- *)

(* popping event e: its callbacks l are now in flight *)
Lemma binv_popped X e0 m rest s ev l :
  cinv X s -> binv [] e0 s -> pop_min (agenda s) = Some (m, rest) -> get_event (e_ev m) s = Some ev -> cbs ev = Some l ->
  binv l (e_ev m) (popped m rest s) /\ wl l (e_ev m) (popped m rest s).
Proof.
  intros CI B Pm He Cl. set (e := e_ev m) in *. set (s' := popped m rest s).
  assert (GR : grows s s') by (eapply prim_grows, p_pop, Pm).
  assert (G : forall x, get_event x s' = if Nat.eqb x e then Some (ev_set_cbs None ev) else get_event x s).
  { intros x. unfold s', popped. fold e. rewrite get_upd.
    change (get_event x (pop_state m rest s)) with (get_event x s).
    destruct (Nat.eqb x e) eqn:E; [|reflexivity]. apply Nat.eqb_eq in E. subst x. rewrite He. reflexivity. }
  assert (IPe : is_proc s e = false) by (unfold is_proc, is_processed; rewrite He, Cl; reflexivity).
  assert (IPe' : is_proc s' e = true) by (unfold is_proc; rewrite G, Nat.eqb_refl; reflexivity).
  assert (IPo : forall o, o <> e -> is_proc s' o = is_proc s o).
  { intros o N. unfold is_proc. rewrite G. apply Nat.eqb_neq in N. rewrite N. reflexivity. }
  assert (CK : forall c, In (CbCheck c) l -> exists cev all ops n, get_event c s = Some cev /\ kind cev = KCond all ops n /\
                                                  (cbcount (CbCheck c) l <= occ e ops)%nat).
  { intros c Hin. eapply ci_check; eassumption. }
  split.
  - intros c cev' all ops n Hc Kc.
    assert (Old : exists cev, get_event c s = Some cev /\ kind cev = KCond all ops n /\ out cev = out cev').
    { rewrite G in Hc. destruct (Nat.eqb c e) eqn:E.
      - apply Nat.eqb_eq in E. subst c. injection Hc as <-. exists ev. auto.
      - exists cev'. auto. }
    destruct Old as (cev & Hc0 & Kc0 & Oc0). destruct (B _ _ _ _ _ Hc0 Kc0) as (B1 & B2).
    rewrite cbcount_nil, Nat.add_0_r in B1, B2.
    rewrite (procpos_pop s s' e ops IPe IPe' IPo).
    assert (Le : (cbcount (CbCheck c) l <= occ e ops)%nat).
    { destruct (cbcount (CbCheck c) l) eqn:Cn; [lia|]. assert (Hin : In (CbCheck c) l) by (apply cbcount_in; lia).
      destruct (CK _ Hin) as (cev2 & a2 & ops2 & n2 & H2 & K2 & L2). rewrite Hc0 in H2. injection H2 as <-.
      rewrite Kc0 in K2. injection K2 as <- <- <-. lia. }
    split; [lia|]. rewrite <- Oc0. intros O.
    destruct (B2 O) as [D|(A & Q & F)]; [left; eapply detached_grows; eauto|right].
    assert (Eq : cbcount (CbCheck c) l = occ e ops) by (eapply A; eassumption).
    split; [|split; [lia|]].
    + intros o oev lo Ho Co. rewrite G in Ho. destruct (Nat.eqb o e); [injection Ho as <-; discriminate|]. eapply A; eassumption.
    + intros o oev Io Ho Co Fo. rewrite G in Ho. destruct (Nat.eqb o e) eqn:E.
      * apply Nat.eqb_eq in E. subst o. right. split; [reflexivity|]. apply cbcount_in. rewrite Eq. apply occ_in, Io.
      * destruct (F _ _ Io Ho Co Fo) as [K|(_ & [])]. left. exact K.
  - eapply wl_grows; [exact GR|]. split.
    + intros c Hin. destruct (CK _ Hin) as (cev & all & ops & n & Hc & Kc & Le). exists cev, all, ops, n.
      split; [exact Hc|]. split; [exact Kc|]. apply occ_in. apply cbcount_in in Hin. lia.
    + intros c Hin. eapply ci_build; eassumption.
Qed.

(* the _check callback of condition c, for the popped event e *)
Lemma binv_cond_check X c e eev l s :
  cinv X s -> get_event e s = Some eev -> cbs eev = None -> chk_ok s e c ->
  binv (CbCheck c :: l) e s -> binv l e (cond_check c e s).
Proof.
  intros CI He Ce (cev & all & ops & n & Hc & Kc & Ie) B.
  pose proof (ci_older _ _ CI _ _ _ _ _ Hc Kc _ Ie) as Lt. assert (Nce : c <> e) by lia.
  assert (CNT : forall c0, cbcount (CbCheck c0) (CbCheck c :: l) = ((if Nat.eqb c0 c then 1 else 0) + cbcount (CbCheck c0) l)%nat).
  { intros c0. rewrite cbcount_cons. cbn [cb_eqb]. reflexivity. }
  destruct (out cev) as [oc|] eqn:Oc.
  { (* c is already triggered: nothing happens *)
    rewrite cond_check_noop by (right; right; exists cev; split; [exact Hc|left; congruence]).
    intros c0 cev0 a0 ops0 n0 H0 K0. destruct (B _ _ _ _ _ H0 K0) as (B1 & B2). rewrite CNT in B1, B2.
    split; [lia|]. intros O. assert (N0 : c0 <> c) by (intros ->; rewrite Hc in H0; injection H0 as <-; congruence).
    apply Nat.eqb_neq in N0. rewrite N0 in B2. cbn [plus] in B2.
    destruct (B2 O) as [D|(A & Q & F)]; [left; exact D|right]. split; [exact A|]. split; [exact Q|].
    intros o oev Io Ho Co Fo. destruct (F _ _ Io Ho Co Fo) as [K|(-> & [H|H])]; auto.
    injection H as ->. rewrite Nat.eqb_refl in N0. discriminate. }
  rewrite (cond_check_eq c e s cev eev all ops n Hc He Oc Kc Nce). cbv zeta.
  set (s0 := if is_failed eev then upd_event e ev_set_defused s else s).
  set (s1 := upd_event c (check_upd all ops n (out eev)) s0).
  assert (S' : forall s2, events s2 = events s1 -> binv l e s1 -> binv l e s2) by (intros; eapply binv_same_events; eauto).
  assert (B1' : binv l e s1).
  2:{ destruct (check_triggers all ops n (out eev)); [apply S'; [reflexivity|exact B1']|exact B1']. }
  (* pointwise description of s1 *)
  assert (G : forall x ev', get_event x s1 = Some ev' ->
            exists ev, get_event x s = Some ev /\ cbs ev' = cbs ev /\
              (x <> c -> kind ev' = kind ev /\ out ev' = out ev) /\
              (x = c -> ev = cev /\ kind ev' = KCond all ops (S n) /\
                        (out ev' = None -> is_failed eev = false))).
  { intros x ev'. unfold s1. rewrite get_upd. destruct (Nat.eqb x c) eqn:E.
    - apply Nat.eqb_eq in E. subst x. assert (Hc0 : get_event c s0 = Some cev).
      { unfold s0. destruct (is_failed eev); [rewrite get_upd_other by exact Nce|]; exact Hc. }
      rewrite Hc0. cbn. intros H; injection H as <-. exists cev. split; [exact Hc|].
      unfold check_upd, is_failed. destruct (out eev) as [[v|x]|];
        [destruct (cond_evaluate all (length ops) (S n))| |destruct (cond_evaluate all (length ops) (S n))]; cbn;
        (split; [reflexivity|]); (split; [congruence|]); intros _; (split; [reflexivity|]); (split; [reflexivity|]); congruence.
    - apply Nat.eqb_neq in E. unfold s0. destruct (is_failed eev).
      + rewrite get_upd. destruct (Nat.eqb x e) eqn:E2.
        * apply Nat.eqb_eq in E2. subst x. rewrite He. cbn. intros H; injection H as <-. exists eev. cbn. repeat split; auto; congruence.
        * intros H. exists ev'. repeat split; auto; congruence.
      + intros H. exists ev'. repeat split; auto; congruence. }
  assert (IP : forall o, is_proc s1 o = is_proc s o).
  { intros o. unfold is_proc. destruct (get_event o s1) as [ev'|] eqn:E1.
    - destruct (G _ _ E1) as (ev & E0 & C & _). rewrite E0. unfold is_processed. rewrite C. reflexivity.
    - destruct (get_event o s) as [ev|] eqn:E0; [|reflexivity]. exfalso.
      apply get_lt in E0. apply nth_error_None in E1. unfold s1, s0 in E1.
      rewrite upd_event_length in E1. destruct (is_failed eev); rewrite ?upd_event_length in E1; lia. }
  assert (GR : grows s s1).
  { apply grows_trans with (s2 := s0).
    - unfold s0. destruct (is_failed eev); [apply grows_upd; intros; apply ev_le_set_defused|apply grows_refl].
    - unfold s1. apply grows_upd. intros ev0 H0. unfold check_upd.
      assert (KL : kind_le (kind ev0) (KCond all ops (S n))).
      { assert (ev0 = cev). { unfold s0 in H0. destruct (is_failed eev); [rewrite get_upd_other in H0 by exact Nce|]; congruence. }
        subst ev0. right. exists all, ops, n, (S n). auto. }
      destruct (out eev) as [[v|x]|]; [destruct (cond_evaluate all (length ops) (S n))| |destruct (cond_evaluate all (length ops) (S n))];
        repeat split; cbn; auto; try discriminate. }
  intros c0 cev0' a0 ops0 n0 H0 K0. destruct (G _ _ H0) as (cev0 & H00 & C0 & Gn & Gc).
  rewrite (procpos_ext s s1 ops0) by (intros; apply IP).
  destruct (Nat.eq_dec c0 c) as [->|N0].
  - (* the condition itself *)
    destruct (Gc eq_refl) as (-> & K1 & O1). rewrite K0 in K1. injection K1 as -> -> ->.
    destruct (B _ _ _ _ _ Hc Kc) as (B1 & B2). rewrite CNT, Nat.eqb_refl in B1, B2.
    split; [lia|]. intros O. specialize (O1 O).
    destruct (B2 Oc) as [D|(A & Q & F)]; [left; eapply detached_grows; eauto|right].
    split; [|split; [lia|]].
    + intros o oev lo Ho Co. destruct (G _ _ Ho) as (oev0 & Ho0 & Cb0 & _). rewrite Cb0 in Co. eapply A; eassumption.
    + intros o oev Io Ho Co Fo. destruct (G _ _ Ho) as (oev0 & Ho0 & Cb0 & Gn0 & _).
      assert (No : o <> c) by (pose proof (ci_older _ _ CI _ _ _ _ _ Hc Kc _ Io); lia).
      destruct (Gn0 No) as (Ko & Oo). rewrite Cb0 in Co.
      assert (Fo0 : is_failed oev0 = true) by (unfold is_failed in *; rewrite <- Oo; exact Fo).
      destruct (F _ _ Io Ho0 Co Fo0) as [(q & K)|(-> & _)]; [left; exists q; congruence|].
      rewrite He in Ho0. injection Ho0 as <-. congruence.
  - (* another condition *)
    destruct (Gn N0) as (K1 & O1). rewrite K1 in K0. destruct (B _ _ _ _ _ H00 K0) as (B1 & B2).
    rewrite CNT in B1, B2. apply Nat.eqb_neq in N0. rewrite N0 in B1, B2. cbn [plus] in B1, B2.
    split; [exact B1|]. rewrite O1. intros O.
    destruct (B2 O) as [D|(A & Q & F)]; [left; eapply detached_grows; eauto|right].
    split; [|split; [exact Q|]].
    + intros o oev lo Ho Co. destruct (G _ _ Ho) as (oev0 & Ho0 & Cb0 & _). rewrite Cb0 in Co. eapply A; eassumption.
    + intros o oev Io Ho Co Fo. destruct (G _ _ Ho) as (oev0 & Ho0 & Cb0 & Gn0 & Gc0). rewrite Cb0 in Co.
      destruct (Nat.eq_dec o c) as [->|No].
      * (* the operand is c itself: a condition, whose failure status may just have changed; it is not processed *)
        exfalso. destruct (Gc0 eq_refl) as (-> & _). pose proof (ci_proc_trig _ _ CI _ _ Hc Co). congruence.
      * destruct (Gn0 No) as (Ko & Oo).
        assert (Fo0 : is_failed oev0 = true) by (unfold is_failed in *; rewrite <- Oo; exact Fo).
        destruct (F _ _ Io Ho0 Co Fo0) as [(q & K)|(-> & [H|H])]; [left; exists q; congruence| |right; auto].
        injection H as ->. rewrite Nat.eqb_refl in N0. discriminate.
Qed.

(* what a sequence of _check removals (for the conditions in D) does to the events *)
Definition rmrel (D : evid -> Prop) (s s' : state) : Prop :=
  forall x, match get_event x s, get_event x s' with
            | Some a, Some b => kind b = kind a /\ out b = out a /\ defused b = defused a /\ (cbs a = None <-> cbs b = None) /\
                                (forall l0 l1, cbs a = Some l0 -> cbs b = Some l1 ->
                                   forall c0, ~ D c0 -> cbcount (CbCheck c0) l1 = cbcount (CbCheck c0) l0)
            | None, None => True
            | _, _ => False
            end.

Lemma rmrel_refl D s : rmrel D s s.
Proof. intros x. destruct (get_event x s) as [a|]; [|exact I]. repeat split; auto. intros l0 l1 H0 H1. congruence. Qed.

Lemma rmrel_trans D s1 s2 s3 : rmrel D s1 s2 -> rmrel D s2 s3 -> rmrel D s1 s3.
Proof.
  intros R1 R2 x. specialize (R1 x). specialize (R2 x).
  destruct (get_event x s1) as [a|], (get_event x s2) as [b|], (get_event x s3) as [c|]; try contradiction; auto.
  destruct R1 as (K1 & O1 & D1 & C1 & L1), R2 as (K2 & O2 & D2 & C2 & L2).
  split; [congruence|]. split; [congruence|]. split; [congruence|]. split; [tauto|].
  intros l0 l2 H0 H2 c0 N. destruct (cbs b) as [l1|] eqn:Cb.
  - rewrite (L2 _ _ eq_refl H2 _ N). apply (L1 _ _ H0 eq_refl _ N).
  - destruct C1 as [_ C1]. specialize (C1 eq_refl). congruence.
Qed.

Lemma rmrel_remove_check_from (D : evid -> Prop) d o s : D d -> rmrel D s (remove_check_from d o s).
Proof.
  intros Dd. unfold remove_check_from. destruct (get_event o s) as [oev|] eqn:Ho; [|apply rmrel_refl].
  destruct (cbs oev) as [l|] eqn:Cl; [|apply rmrel_refl]. destruct (mem_cb (CbCheck d) l); [|apply rmrel_refl].
  intros x. rewrite get_upd. destruct (Nat.eqb x o) eqn:E.
  - apply Nat.eqb_eq in E. subst x. rewrite Ho. cbn. repeat split; auto; try (rewrite Cl; discriminate).
    intros l0 l1 H0 H1 c0 N. rewrite Cl in H0. injection H0 as <-. injection H1 as <-.
    apply cbcount_remove_other. intros E. injection E as ->. contradiction.
  - destruct (get_event x s) as [a|]; [|exact I]. repeat split; auto. intros l0 l1 H0 H1. congruence.
Qed.

Lemma rmsteps_rmrel (D : evid -> Prop) s s' : rmsteps D s s' -> rmrel D s s'.
Proof.
  induction 1; [apply rmrel_refl|]. eapply rmrel_trans; [apply rmrel_remove_check_from; eassumption|eassumption].
Qed.

Lemma rmsteps_list (D : evid -> Prop) s s' :
  rmsteps D s s' -> exists ds, (forall d, In d ds -> D d) /\ rmsteps (fun d => In d ds) s s'.
Proof.
  induction 1 as [s|d o s s' Dd RM (ds & Hds & IH)].
  - exists []. split; [intros d []|constructor].
  - exists (d :: ds). split; [intros d' [<-|H]; auto|].
    econstructor; [left; reflexivity|]. eapply rmsteps_weaken; [|exact IH]. intros d' H. right. exact H.
Qed.

(* the _build_value callback of the popped condition e *)
Lemma binv_cond_build X e eev l s :
  cinv X s -> get_event e s = Some eev -> cbs eev = None -> binv l e s -> binv l e (fst (cond_build e s)).
Proof.
  intros CI He Ce B. unfold cond_build.
  destruct (remove_checks (S e) e s) as [s1|] eqn:R; [|exact B].
  pose proof (remove_checks_rm _ _ _ _ R) as RM.
  destruct (rmsteps_list _ _ _ RM) as (ds & Hds & RM').
  pose proof (rmsteps_rmrel _ _ _ RM') as RR.
  assert (CI1 : cinv X s1).
  { eapply rmsteps_ind_P; [|exact RM|exact CI]. intros; apply cinv_remove_check_from; assumption. }
  assert (GR : grows s s1) by (eapply grows_remove_checks, R).
  assert (IP : forall o, is_proc s1 o = is_proc s o).
  { intros o. unfold is_proc. specialize (RR o). destruct (get_event o s) as [a|], (get_event o s1) as [b|]; try contradiction; auto.
    destruct RR as (_ & _ & _ & C & _). unfold is_processed. destruct (cbs a), (cbs b); auto.
    - destruct C as [_ C]. specialize (C eq_refl). discriminate.
    - destruct C as [C _]. specialize (C eq_refl). discriminate. }
  assert (B1 : binv l e s1).
  { intros c cev' all ops n Hc Kc. pose proof (RR c) as Rc. rewrite Hc in Rc.
    destruct (get_event c s) as [cev|] eqn:Hc0; [|contradiction]. destruct Rc as (K1 & O1 & _).
    rewrite K1 in Kc. destruct (B _ _ _ _ _ Hc0 Kc) as (B1 & B2).
    rewrite (procpos_ext s s1 ops) by (intros; apply IP). split; [exact B1|]. rewrite O1. intros O.
    destruct (B2 O) as [D|(A & Q & F)]; [left; eapply detached_grows; eauto|].
    destruct (in_dec Nat.eq_dec c ds) as [Hin|Hnin].
    - (* c is nested below e: detached from now on *)
      left. exists e. split; [eapply desc_grows; [exact GR|apply Hds, Hin]|]. split.
      + intros ->. rewrite He in Hc0. injection Hc0 as <-. exact (ci_proc_trig _ _ CI _ _ He Ce O).
      + rewrite IP. unfold is_proc, is_processed. rewrite He, Ce. reflexivity.
    - right. split; [|split; [exact Q|]].
      + intros o oev lo Ho Co. pose proof (RR o) as Ro. rewrite Ho in Ro.
        destruct (get_event o s) as [oev0|] eqn:Ho0; [|contradiction]. destruct Ro as (_ & _ & _ & C & L).
        destruct (cbs oev0) as [l0|] eqn:C0; [|destruct C as [C _]; specialize (C eq_refl); congruence].
        rewrite (L _ _ eq_refl Co _ Hnin). eapply A; eassumption.
      + intros o oev Io Ho Co Fo. pose proof (RR o) as Ro. rewrite Ho in Ro.
        destruct (get_event o s) as [oev0|] eqn:Ho0; [|contradiction]. destruct Ro as (Ko & Oo & _ & C & _).
        rewrite Ko. apply F; auto; [apply C, Co|]. unfold is_failed in *. rewrite <- Oo. exact Fo. }
  destruct (get_event e s1) as [cev|] eqn:Hc; [|exact B1].
  destruct (out cev) as [[v|x]|] eqn:Oc; try exact B1.
  destruct (kind cev) eqn:Kc; try exact B1.
  destruct (populate (S e) (events s1) ops); [|exact B1]. cbn [fst].
  eapply binv_upd; [exact CI1|exact B1|exact Hc|..]; cbn; auto; try tauto.
  - intros l2 l3 H2 H3 c0. rewrite H2 in H3. injection H3 as <-. reflexivity.
  - left. rewrite Oc. reflexivity.
Qed.

(* ------------------------------------------------------------------------------------------------ *)
(* the callback loop of a step *)

Definition winv (X : list evid) (l : list cb) (e : evid) (s : state) : Prop :=
  cinv X s /\ procs_wf s /\ processed_in e s /\ wl l e s.

Lemma iptrace_winv l e X' s s' : iptrace X' s s' -> forall X, winv X l e s ->
  winv (X ++ X') l e s' /\ (binv l e s -> binv l e s').
Proof.
  induction 1 as [|x X' s s1 s2 P T IH]; intros X W; [rewrite app_nil_r; auto|].
  destruct W as (CI & PW & PE & WL).
  assert (W1 : winv (X ++ lab x) l e s1).
  { pose proof (iprim_grows _ _ _ P) as G. split; [eapply iprim_cinv; eassumption|].
    split; [eapply prim_procs_wf; [apply p_inner, P|exact PW]|]. split; [eapply grows_processed; eauto|eapply wl_grows; eauto]. }
  destruct (IH _ W1) as (W2 & B2). rewrite app_assoc. split; [exact W2|].
  intros B. apply B2. eapply iprim_binv; eassumption.
Qed.

Lemma xtrace_winv codes l e X' s s' : xtrace codes X' s s' -> forall X, winv X l e s ->
  winv (X ++ X') l e s' /\ (binv l e s -> binv l e s').
Proof. intros T. apply iptrace_winv. eapply xtrace_iptrace, T. Qed.

Lemma winv_tail X cb l e s : winv X (cb :: l) e s -> winv X l e s.
Proof. intros (A & B & C & D). split; [exact A|]. split; [exact B|]. split; [exact C|eapply wl_tail, D]. Qed.

Lemma run_cb_winv codes fuel X cb l e s s' r :
  winv X (cb :: l) e s -> run_cb fuel codes e cb s = (s', r) ->
  exists X', etrace codes X' s s' /\ winv (X ++ X') l e s' /\ (binv (cb :: l) e s -> binv l e s').
Proof.
  intros W R. pose proof W as (CI & PW & (eev & He & Ce) & WL).
  assert (ViaX : xsteps codes s s' -> (forall c, cb <> CbCheck c) ->
            exists X', etrace codes X' s s' /\ winv (X ++ X') l e s' /\ (binv (cb :: l) e s -> binv l e s')).
  { intros (X' & T) N. exists X'. split; [rewrite <- (app_nil_r X'); econstructor; [apply es_x, T|constructor]|].
    destruct (xtrace_winv codes (cb :: l) e X' s s' T X W) as (W' & B').
    split; [eapply winv_tail, W'|]. intros B. eapply binv_drop; [exact N|apply B', B]. }
  destruct cb; cbn [run_cb] in R.
  - apply ViaX; [|discriminate]. pose proof (xs_resume_proc codes fuel p e s PW) as Xs. rewrite R in Xs. exact Xs.
  - injection R as <- <-. assert (CK : chk_ok s e c) by (apply (proj1 WL); left; reflexivity).
    exists []. split; [|rewrite app_nil_r; split].
    + rewrite <- (app_nil_r []). econstructor; [eapply es_check; [exact He|exact Ce|apply chk_ok_opnd, CK]|constructor].
    + pose proof (grows_cond_check c e s) as G. split; [eapply cinv_cond_check; [exact CI|exact He|exact Ce|apply chk_ok_opnd, CK]|].
      split; [eapply prim_procs_wf; [eapply p_check; [exact He|exact Ce|apply chk_ok_opnd, CK]|exact PW]|].
      split; [eapply grows_processed; [exact G|exists eev; auto]|eapply wl_grows; [exact G|eapply wl_tail, WL]].
    + intros B. eapply binv_cond_check; eassumption.
  - assert (c = e) by (apply (proj2 WL); left; reflexivity). subst c.
    assert (s' = fst (cond_build e s)) by (rewrite R; reflexivity). subst s'.
    exists []. split; [|rewrite app_nil_r; split].
    + rewrite <- (app_nil_r []). econstructor; [apply es_build|constructor].
    + pose proof (grows_cond_build e s) as G. split; [apply cinv_cond_build, CI|].
      split; [eapply prim_procs_wf; [apply p_build|exact PW]|].
      split; [eapply grows_processed; [exact G|exists eev; auto]|eapply wl_grows; [exact G|eapply wl_tail, WL]].
    + intros B. eapply binv_cond_build; [exact CI|exact He|exact Ce|]. eapply binv_drop; [|exact B]. discriminate.
  - apply ViaX; [|discriminate]. pose proof (xs_do_interruption codes fuel i s PW) as Xs. rewrite R in Xs. exact Xs.
  - apply ViaX; [|discriminate]. assert (s' = s) by (rewrite <- (stop_cb_state e s), R; reflexivity). subst s'. apply xsteps_refl.
  - injection R as <- <-. apply ViaX; [|discriminate]. apply xsteps_prim, p_frame. repeat split.
Qed.

(* the loop, whatever its result (also when an exception escaped from its middle) *)
Lemma run_callbacks_winv codes fuel e l : forall X s s' r,
  winv X l e s -> run_callbacks fuel codes e l s = (s', r) ->
  exists X', etrace codes X' s s' /\ cinv (X ++ X') s' /\ procs_wf s'.
Proof.
  induction l as [|cb t IH]; intros X s s' r W R; cbn [run_callbacks] in R.
  - injection R as <- <-. exists []. rewrite app_nil_r. destruct W as (A & B & _). split; [constructor|auto].
  - destruct (run_cb fuel codes e cb s) as [s1 r1] eqn:R1.
    destruct (run_cb_winv codes fuel X cb t e s s1 r1 W R1) as (X1 & T1 & W1 & B1).
    assert (Cont : forall s2 r2, run_callbacks fuel codes e t s1 = (s2, r2) ->
              exists X', etrace codes X' s s2 /\ cinv (X ++ X') s2 /\ procs_wf s2).
    { intros s2 r2 R2. destruct (IH _ _ _ _ W1 R2) as (X2 & T2 & C2 & P2). exists (X1 ++ X2).
      split; [eapply et_app; eassumption|]. rewrite app_assoc. auto. }
    assert (Stop : exists X', etrace codes X' s s1 /\ cinv (X ++ X') s1 /\ procs_wf s1).
    { exists X1. destruct W1 as (A & B & _). auto. }
    destruct r1; try (injection R as <- <-; exact Stop); try (eapply Cont; exact R);
      (destruct (is_stop_cb cb && is_exit _); [|injection R as <- <-; exact Stop]);
      destruct (run_callbacks fuel codes e t s1) as [s2 r2] eqn:R2;
      (assert (s' = s2) by (destruct r2; injection R as <- _; reflexivity)); subst s'; eapply Cont; reflexivity.
Qed.

(* a loop in which every callback ran: each returned normally, except that the stop callback of run(until=event)
   may have raised (the repaired step() remembers that and continues) *)
Inductive cbloop (codes : list prog) (fuel : nat) (e : evid) : list cb -> state -> state -> Prop :=
| cbl_nil s : cbloop codes fuel e [] s s
| cbl_ok c t s s1 s' : run_cb fuel codes e c s = (s1, ROk) -> cbloop codes fuel e t s1 s' -> cbloop codes fuel e (c :: t) s s'
| cbl_stop t s s1 r s' : run_cb fuel codes e CbStop s = (s1, r) -> is_exit r = true -> cbloop codes fuel e t s1 s' ->
                         cbloop codes fuel e (CbStop :: t) s s'.

Lemma run_callbacks_cbloop codes fuel e l : forall s s',
  run_callbacks fuel codes e l s = (s', ROk) -> cbloop codes fuel e l s s'.
Proof.
  induction l as [|cb t IH]; intros s s' R; cbn [run_callbacks] in R.
  - injection R as <-. constructor.
  - destruct (run_cb fuel codes e cb s) as [s1 r1] eqn:R1.
    destruct r1; try (eapply cbl_ok; [exact R1|apply IH, R]);
      (destruct (is_stop_cb cb && is_exit _); [|discriminate]);
      destruct (run_callbacks fuel codes e t s1) as [s2 r2]; destruct r2; discriminate.
Qed.

Lemma cbloop_run_callbacks codes fuel e l s s' :
  cbloop codes fuel e l s s' ->
  exists r, run_callbacks fuel codes e l s = (s', r) /\ (r = ROk \/ (is_exit r = true /\ In CbStop l)).
Proof.
  induction 1 as [s|c t s s1 s' R1 L (r & IH & Hr)|t s s1 r1 s' R1 Ex L (r & IH & Hr)]; cbn [run_callbacks].
  - exists ROk. auto.
  - rewrite R1. exists r. split; [exact IH|]. destruct Hr as [H|(H & I)]; [auto|right; split; [exact H|right; exact I]].
  - rewrite R1. destruct r1; try discriminate; cbn [is_stop_cb is_exit andb]; rewrite IH.
    + destruct Hr as [->|(H & I)].
      * exists (RStop v). split; [reflexivity|right; split; [reflexivity|left; reflexivity]].
      * exists r. split; [destruct r; try discriminate; reflexivity|right; split; [exact H|right; exact I]].
    + destruct Hr as [->|(H & I)].
      * exists (RRaise x). split; [reflexivity|right; split; [reflexivity|left; reflexivity]].
      * exists r. split; [destruct r; try discriminate; reflexivity|right; split; [exact H|right; exact I]].
Qed.

Lemma cbloop_winv codes fuel e l s s' : cbloop codes fuel e l s s' -> forall X, winv X l e s ->
  exists X', etrace codes X' s s' /\ cinv (X ++ X') s' /\ procs_wf s' /\ (binv l e s -> binv [] e s').
Proof.
  induction 1 as [s|c t s s1 s' R1 L IH|t s s1 r1 s' R1 Ex L IH]; intros X W.
  - exists []. rewrite app_nil_r. destruct W as (A & B & _). split; [constructor|auto].
  - destruct (run_cb_winv codes fuel X c t e s s1 ROk W R1) as (X1 & T1 & W1 & B1).
    destruct (IH _ W1) as (X2 & T2 & C2 & P2 & B2). exists (X1 ++ X2). split; [eapply et_app; eassumption|].
    rewrite app_assoc. split; [exact C2|]. split; [exact P2|]. intros B. apply B2, B1, B.
  - destruct (run_cb_winv codes fuel X CbStop t e s s1 r1 W R1) as (X1 & T1 & W1 & B1).
    destruct (IH _ W1) as (X2 & T2 & C2 & P2 & B2). exists (X1 ++ X2). split; [eapply et_app; eassumption|].
    rewrite app_assoc. split; [exact C2|]. split; [exact P2|]. intros B. apply B2, B1, B.
Qed.

(* ------------------------------------------------------------------------------------------------ *)
(* steps *)

Lemma binv_nil_irrel e e' s : binv [] e s -> binv [] e' s.
Proof.
  intros B c cev all ops n Hc Kc. destruct (B _ _ _ _ _ Hc Kc) as (B1 & B2). split; [exact B1|]. intros O.
  destruct (B2 O) as [D|(A & Q & F)]; [left; exact D|right]. split; [exact A|]. split; [exact Q|].
  intros o oev Io Ho Co Fo. destruct (F _ _ Io Ho Co Fo) as [K|(_ & [])]. left. exact K.
Qed.

(* the invariant at step boundaries *)
Definition bnd (s : state) : Prop := binv [] 0%nat s.

(* a step whose callback loop ran to its end (no exception escaped from the middle of the loop) *)
Definition clean_step (fuel : nat) (codes : list prog) (s s' : state) (e : evid) : Prop :=
  exists m rest ev l, pop_min (agenda s) = Some (m, rest) /\ e = e_ev m /\ get_event e s = Some ev /\ cbs ev = Some l /\
                      cbloop codes fuel e l (popped m rest s) s'.

(* what step() returns for it: the remembered stop of run(until=event) if there was one, else the verdict on an
   undefused failure *)
Lemma clean_step_result fuel codes s s' e : clean_step fuel codes s s' e ->
  exists r, step fuel codes s = (s', r) /\
            (r = check_failure e s' \/ (is_exit r = true /\ exists ev l, get_event e s = Some ev /\ cbs ev = Some l /\ In CbStop l)).
Proof.
  intros (m & rest & ev & l & Pm & -> & He & Cl & L). destruct (cbloop_run_callbacks _ _ _ _ _ _ L) as (r & R & Hr).
  unfold step. rewrite Pm. change (get_event (e_ev m) (pop_state m rest s)) with (get_event (e_ev m) s). rewrite He, Cl.
  fold (popped m rest s). rewrite R. destruct Hr as [->|(Ex & I)].
  - exists (check_failure (e_ev m) s'). auto.
  - exists r. split; [destruct r; try discriminate; reflexivity|]. right. split; [exact Ex|]. exists ev, l. auto.
Qed.

Lemma step_ok_clean fuel codes s s' : step fuel codes s = (s', ROk) -> exists e, clean_step fuel codes s s' e.
Proof.
  intros H. apply step_unfold in H. destruct H as [(_ & _ & H)|(m & rest & Pm & [(_ & _ & H)|[(ev & _ & _ & _ & H)|(ev & l & r2 & He & Cl & R & H)]])]; try discriminate.
  exists (e_ev m), m, rest, ev, l. destruct r2; try discriminate. repeat split; auto. apply run_callbacks_cbloop, R.
Qed.

Lemma step_winv codes fuel X s s' r :
  cinv X s -> procs_wf s -> step fuel codes s = (s', r) ->
  exists X', etrace codes X' s s' /\ cinv (X ++ X') s' /\ procs_wf s'.
Proof.
  intros CI PW H. apply step_unfold in H. destruct H as [(_ & -> & _)|(m & rest & Pm & H)].
  { exists []. rewrite app_nil_r. split; [constructor|auto]. }
  assert (T1 : etrace codes [] s (popped m rest s)).
  { rewrite <- (app_nil_r []). econstructor; [apply es_pop, Pm|constructor]. }
  assert (C1 : cinv X (popped m rest s)) by (apply cinv_popped; assumption).
  assert (P1 : procs_wf (popped m rest s)) by (eapply prim_procs_wf; [apply p_pop, Pm|exact PW]).
  destruct H as [(_ & -> & _)|[(ev & _ & _ & -> & _)|(ev & l & r2 & He & Cl & R & _)]];
    try solve [exists []; rewrite app_nil_r; auto].
  assert (W : winv X l (e_ev m) (popped m rest s)).
  { split; [exact C1|]. split; [exact P1|]. split; [eapply popped_processed, He|].
    eapply wl_grows; [eapply prim_grows, p_pop, Pm|]. split.
    - intros c Hin. destruct (ci_check _ _ CI _ _ _ _ He Cl Hin) as (cev & all & ops & n & Hc & Kc & Le).
      exists cev, all, ops, n. split; [exact Hc|]. split; [exact Kc|]. apply occ_in. apply cbcount_in in Hin. lia.
    - intros c Hin. exact (proj1 (ci_build _ _ CI _ _ _ _ He Cl Hin)). }
  destruct (run_callbacks_winv codes fuel _ _ _ _ _ _ W R) as (X' & T & C & P).
  exists X'. split; [|auto]. change X' with ([] ++ X'). eapply et_app; [exact T1|exact T].
Qed.

Lemma clean_step_winv codes fuel X s s' e : cinv X s -> procs_wf s -> clean_step fuel codes s s' e ->
  exists X', etrace codes X' s s' /\ cinv (X ++ X') s' /\ procs_wf s' /\ (bnd s -> bnd s').
Proof.
  intros CI PW (m & rest & ev & l & Pm & -> & He & Cl & L).
  assert (T1 : etrace codes [] s (popped m rest s)).
  { rewrite <- (app_nil_r []). econstructor; [apply es_pop, Pm|constructor]. }
  assert (W : winv X l (e_ev m) (popped m rest s)).
  { split; [apply cinv_popped; assumption|]. split; [eapply prim_procs_wf; [apply p_pop, Pm|exact PW]|].
    split; [eapply popped_processed, He|].
    eapply wl_grows; [eapply prim_grows, p_pop, Pm|]. split.
    - intros c Hin. destruct (ci_check _ _ CI _ _ _ _ He Cl Hin) as (cev & all & ops & n & Hc & Kc & Le).
      exists cev, all, ops, n. split; [exact Hc|]. split; [exact Kc|]. apply occ_in. apply cbcount_in in Hin. lia.
    - intros c Hin. exact (proj1 (ci_build _ _ CI _ _ _ _ He Cl Hin)). }
  destruct (cbloop_winv _ _ _ _ _ _ L _ W) as (X' & T & C & P & Bf).
  exists X'. split; [change X' with ([] ++ X'); eapply et_app; [exact T1|exact T]|]. split; [exact C|]. split; [exact P|].
  intros B. destruct (binv_popped X 0%nat m rest s ev l CI B Pm He Cl) as (B1 & _).
  eapply binv_nil_irrel. apply Bf, B1.
Qed.

Lemma clean_step_bnd codes fuel X s s' e : cinv X s -> procs_wf s -> bnd s -> clean_step fuel codes s s' e -> bnd s'.
Proof. intros CI PW B CS. destruct (clean_step_winv codes fuel X s s' e CI PW CS) as (X' & _ & _ & _ & Bf). apply Bf, B. Qed.

Lemma reach_step codes X fuel s s' r : reach codes X s -> step fuel codes s = (s', r) -> exists X', reach codes (X ++ X') s'.
Proof.
  intros R H. destruct (step_winv codes fuel X s s' r (reach_cinv _ _ _ R) (reach_procs_wf _ _ _ R) H) as (X' & T & _).
  eapply reach_esteps; [exact R|exists X'; exact T].
Qed.

Lemma reach_run_loop codes fuel u n : forall X s, reach codes X s -> exists X', reach codes (X ++ X') (fst (run_loop n fuel codes u s)).
Proof.
  induction n as [|n IH]; intros X s R; cbn [run_loop fst]; [exists []; rewrite app_nil_r; exact R|].
  destruct (step fuel codes s) as [s1 r] eqn:S. destruct (reach_step _ _ _ _ _ _ R S) as (X1 & R1).
  destruct r; try (exists X1; exact R1). destruct (IH _ _ R1) as (X2 & R2). exists (X1 ++ X2). rewrite app_assoc. exact R2.
Qed.

Lemma reach_run codes X fuel u s : reach codes X s -> exists X', reach codes (X ++ X') (fst (run fuel codes u s)).
Proof.
  intros R. unfold run. destruct (run_prelude u s) as [[s1 r]|s1] eqn:P.
  - apply run_prelude_inl in P. subst s1. exists []. rewrite app_nil_r. exact R.
  - destruct (reach_esteps _ _ _ _ R (esteps_x _ _ _ (xs_run_prelude codes u s s1 P))) as (X1 & R1).
    destruct (reach_run_loop codes fuel u fuel _ _ R1) as (X2 & R2). exists (X1 ++ X2). rewrite app_assoc. exact R2.
Qed.

(* clean executions: module-level code, run() preludes, and steps whose callback loop completed *)
Inductive creach (codes : list prog) : list evid -> state -> Prop :=
| cr_init t0 : creach codes [] (init_state t0)
| cr_x X X' s s' : creach codes X s -> xtrace codes X' s s' -> creach codes (X ++ X') s'
| cr_step X X' fuel s s' e : creach codes X s -> clean_step fuel codes s s' e -> etrace codes X' s s' ->
                             creach codes (X ++ X') s'.

Lemma creach_reach codes X s : creach codes X s -> reach codes X s.
Proof.
  induction 1 as [t0|X X' s s' C IH T|X X' fuel s s' e C IH CS T].
  - apply reach_init.
  - destruct IH as (t0 & T0). exists t0. eapply et_app; [exact T0|]. rewrite <- (app_nil_r X'). econstructor; [apply es_x, T|constructor].
  - destruct IH as (t0 & T0). exists t0. eapply et_app; eassumption.
Qed.

Lemma bnd_init t0 : bnd (init_state t0).
Proof. intros c cev all ops n H. rewrite get_init in H. discriminate. Qed.

Lemma iptrace_binv l e X' s s' : iptrace X' s s' -> forall X, cinv X s -> wl l e s -> binv l e s -> binv l e s'.
Proof.
  induction 1 as [|x X' s s1 s2 P T IH]; intros X CI W B; [exact B|].
  eapply (IH (X ++ lab x)).
  - eapply iprim_cinv; eassumption.
  - eapply wl_grows; [eapply iprim_grows, P|exact W].
  - eapply iprim_binv; eassumption.
Qed.

Theorem creach_bnd codes X s : creach codes X s -> bnd s.
Proof.
  induction 1 as [t0|X X' s s' C IH T|X X' fuel s s' e C IH CS T].
  - apply bnd_init.
  - pose proof (creach_reach _ _ _ C) as R.
    eapply iptrace_binv; [eapply xtrace_iptrace, T|apply (reach_cinv _ _ _ R)|apply wl_nil|exact IH].
  - pose proof (creach_reach _ _ _ C) as R.
    eapply clean_step_bnd; [apply (reach_cinv _ _ _ R)|apply (reach_procs_wf _ _ _ R)|exact IH|exact CS].
Qed.

(* every clean step is available to [creach] *)
Lemma creach_step codes X fuel s s' e :
  creach codes X s -> clean_step fuel codes s s' e -> exists X', creach codes (X ++ X') s'.
Proof.
  intros C CS. pose proof (creach_reach _ _ _ C) as R.
  destruct (clean_step_winv codes fuel X s s' e (reach_cinv _ _ _ R) (reach_procs_wf _ _ _ R) CS) as (X' & T & _).
  exists X'. eapply cr_step; eassumption.
Qed.

Lemma creach_exec_top {A} codes X (f : frag A) s : creach codes X s -> exists X', creach codes (X ++ X') (fst (exec_top codes f s)).
Proof. intros C. destruct (xs_run_frag codes f s) as (X' & T). exists X'. eapply cr_x; eassumption. Qed.

Lemma creach_prelude codes X u s s1 : creach codes X s -> run_prelude u s = inr s1 -> exists X', creach codes (X ++ X') s1.
Proof. intros C P. destruct (xs_run_prelude codes u s s1 P) as (X' & T). exists X'. eapply cr_x; eassumption. Qed.
