(* Kernel/StopFrame.v -- C03, part 1: the frame relation [sfr s s'] of everything the kernel does BELOW step()/run()
   (API calls, process bodies, callbacks):

     - the clock does not move and the agenda only gets new entries at its end;
     - a new entry of the URGENT class is due at the current instant (process starts and interrupts are scheduled with
       delay 0: the only urgent entry ever scheduled for a later instant is the sentinel of run(until=number));
     - an event that is triggered in s' was triggered in s or got one of the new entries (whoever sets an outcome also
       schedules);
     - no stop callback (StopSimulation.callback) appears: only run() appends one.

   One lemma per function of Kernel/Model.v, as in Kernel/Inv.v.  Then the state invariants they give:
     urgent_now s      every pending urgent entry is due now
     no_stop s         no pending event carries a stop callback
     pend_ok s         a triggered, unprocessed event has an agenda entry
     calm s            good /\ uinv /\ no_stop /\ urgent_now /\ pend_ok  -- every state an execution reaches outside a
                       run(until=...), as long as no run(until=...) ended with an exception (calm_* lemmas). *)
From Coq Require Import ZArith QArith List Bool Lia Lqa.
From ONL Require Import Kernel.Model Kernel.Keys Kernel.Inv Kernel.Order Kernel.Deliver Kernel.DeliverWf.
Import ListNotations.

Definition has_stop (ev : event) : bool :=
  match cbs ev with Some l => existsb is_stop_cb l | None => false end.

Definition sfr (s s' : state) : Prop :=
  now s' = now s /\
  (exists l, agenda s' = agenda s ++ l /\
             (forall y, In y l -> e_prio y = URGENT -> e_time y == now s /\ (length (events s) <= e_ev y)%nat) /\
             (forall e ev', get_event e s' = Some ev' -> out ev' <> None ->
                (exists ev, get_event e s = Some ev /\ out ev <> None) \/ (exists y, In y l /\ e_ev y = e))) /\
  (forall e ev', get_event e s' = Some ev' -> has_stop ev' = true ->
     exists ev, get_event e s = Some ev /\ has_stop ev = true) /\
  (forall e ev, get_event e s = Some ev ->
     exists ev', get_event e s' = Some ev' /\ (has_stop ev = true -> has_stop ev' = true)).

Lemma sfr_refl s : sfr s s.
Proof.
  split; [reflexivity|]. split; [|split].
  - exists []. rewrite app_nil_r. split; [reflexivity|]. split; [intros y []|].
    intros e ev' H O. left. exists ev'. auto.
  - intros e ev' H S. exists ev'. auto.
  - intros e ev H. exists ev. auto.
Qed.

Lemma sfr_length s s' : sfr s s' -> (length (events s) <= length (events s'))%nat.
Proof.
  intros (_ & _ & _ & K). destruct (length (events s)) as [|n] eqn:L; [lia|].
  destruct (nth_error (events s) n) as [ev|] eqn:H; [|apply nth_error_None in H; lia].
  destruct (K n ev H) as (ev' & H' & _). apply get_event_lt in H'. lia.
Qed.

Lemma sfr_trans s1 s2 s3 : sfr s1 s2 -> sfr s2 s3 -> sfr s1 s3.
Proof.
  intros X1 X2. pose proof (sfr_length _ _ X1) as Len.
  destruct X1 as (N1 & (l1 & A1 & U1 & T1) & S1 & K1), X2 as (N2 & (l2 & A2 & U2 & T2) & S2 & K2).
  split; [congruence|]. split; [|split].
  - exists (l1 ++ l2). split; [rewrite A2, A1, app_assoc; reflexivity|]. split.
    + intros y Hy P. apply in_app_or in Hy. destruct Hy as [Hy|Hy]; [apply U1; assumption|].
      rewrite <- N1. destruct (U2 _ Hy P) as [Ta Tb]. split; [exact Ta|lia].
    + intros e ev3 H O. destruct (T2 _ _ H O) as [(ev2 & H2 & O2)|(y & Hy & E)].
      * destruct (T1 _ _ H2 O2) as [L|(y & Hy & E)]; [left; exact L|].
        right. exists y. split; [apply in_or_app; left; exact Hy|exact E].
      * right. exists y. split; [apply in_or_app; right; exact Hy|exact E].
  - intros e ev3 H S. destruct (S2 _ _ H S) as (ev2 & H2 & S2'). exact (S1 _ _ H2 S2').
  - intros e ev H. destruct (K1 _ _ H) as (ev2 & H2 & P2). destruct (K2 _ _ H2) as (ev3 & H3 & P3).
    exists ev3. split; [exact H3|auto].
Qed.

(* ---- primitives ---- *)

Lemma sfr_same s s' : now s' = now s -> agenda s' = agenda s -> events s' = events s -> sfr s s'.
Proof.
  intros N A E. split; [exact N|]. split; [|split].
  - exists []. rewrite app_nil_r. split; [exact A|]. split; [intros y []|].
    intros e ev' H O. left. exists ev'. unfold get_event in *. rewrite <- E. auto.
  - intros e ev' H S. exists ev'. unfold get_event in *. rewrite <- E. auto.
  - intros e ev H. exists ev. unfold get_event in *. rewrite E. auto.
Qed.

Lemma sfr_set_active a s : sfr s (set_active a s). Proof. apply sfr_same; reflexivity. Qed.
Lemma sfr_set_glob g s : sfr s (set_glob g s). Proof. apply sfr_same; reflexivity. Qed.
Lemma sfr_add_obs o s : sfr s (add_obs o s). Proof. apply sfr_same; reflexivity. Qed.
Lemma sfr_set_procs ps s : sfr s (set_procs ps s). Proof. apply sfr_same; reflexivity. Qed.
Lemma sfr_upd_proc p f s : sfr s (upd_proc p f s). Proof. apply sfr_same; reflexivity. Qed.

(* a change of one event record that neither adds nor removes a stop callback and sets no outcome *)
Lemma sfr_upd_event e f s :
  (forall ev, get_event e s = Some ev ->
     has_stop (f ev) = has_stop ev /\ (out (f ev) <> None -> out ev <> None)) ->
  sfr s (upd_event e f s).
Proof.
  intros Hf. split; [reflexivity|]. split; [|split].
  - exists []. rewrite app_nil_r. split; [reflexivity|]. split; [intros y []|].
    intros x ev'. rewrite get_upd_event. destruct (Nat.eqb x e) eqn:E.
    + apply Nat.eqb_eq in E. subst x. destruct (get_event e s) as [ev|] eqn:H; cbn; [|discriminate].
      intros H'; injection H' as <-. intros O. left. exists ev. split; [reflexivity|apply (Hf _ eq_refl), O].
    + intros H O. left. exists ev'. auto.
  - intros x ev'. rewrite get_upd_event. destruct (Nat.eqb x e) eqn:E.
    + apply Nat.eqb_eq in E. subst x. destruct (get_event e s) as [ev|] eqn:H; cbn; [|discriminate].
      intros H'; injection H' as <-. intros S. exists ev. split; [reflexivity|]. rewrite <- (proj1 (Hf _ eq_refl)). exact S.
    + intros H S. exists ev'. auto.
  - intros x ev H. rewrite get_upd_event. destruct (Nat.eqb x e) eqn:E.
    + apply Nat.eqb_eq in E. subst x. rewrite H. cbn. exists (f ev). split; [reflexivity|]. rewrite (proj1 (Hf _ H)). auto.
    + exists ev. auto.
Qed.

Lemma sfr_set_defused e s : sfr s (upd_event e ev_set_defused s).
Proof. apply sfr_upd_event. intros ev _. split; auto. Qed.
Lemma sfr_set_kind e k s : sfr s (upd_event e (ev_set_kind k) s).
Proof. apply sfr_upd_event. intros ev _. split; auto. Qed.

Lemma existsb_stop_app l c : is_stop_cb c = false -> existsb is_stop_cb (l ++ [c]) = existsb is_stop_cb l.
Proof. intros H. rewrite existsb_app. cbn. rewrite H. now rewrite !orb_false_r. Qed.

Lemma cb_eqb_stop x c : cb_eqb x c = true -> is_stop_cb x = is_stop_cb c.
Proof. destruct x, c; cbn; intros H; try discriminate; reflexivity. Qed.

Lemma existsb_stop_remove c l : is_stop_cb c = false -> existsb is_stop_cb (remove_first c l) = existsb is_stop_cb l.
Proof.
  intros Hc. induction l as [|x t IH]; cbn [remove_first existsb]; [reflexivity|].
  destruct (cb_eqb x c) eqn:E.
  - rewrite (cb_eqb_stop _ _ E), Hc. reflexivity.
  - cbn [existsb]. now rewrite IH.
Qed.

Lemma sfr_add_callback e c s : is_stop_cb c = false -> sfr s (add_callback e c s).
Proof.
  intros Hc. apply sfr_upd_event. intros ev _. unfold ev_add_cb, has_stop. destruct (cbs ev) as [l|] eqn:C; cbn.
  - rewrite existsb_stop_app by exact Hc. split; auto.
  - rewrite C. split; auto.
Qed.

(* removing a callback that is not a stop callback *)
Lemma sfr_set_cbs_remove e c l s ev :
  is_stop_cb c = false -> get_event e s = Some ev -> cbs ev = Some l ->
  sfr s (upd_event e (ev_set_cbs (Some (remove_first c l))) s).
Proof.
  intros Hc H C. apply sfr_upd_event. intros ev0 H0. rewrite H in H0. injection H0 as <-.
  unfold has_stop. cbn. rewrite C. split; [apply existsb_stop_remove, Hc|auto].
Qed.

Lemma get_new_event_cases ev s x ev' :
  get_event x (snd (new_event ev s)) = Some ev' -> get_event x s = Some ev' \/ (x = length (events s) /\ ev' = ev).
Proof.
  unfold get_event. cbn. destruct (Nat.lt_ge_cases x (length (events s))) as [L|L].
  - rewrite nth_error_app1 by exact L. auto.
  - rewrite nth_error_app2 by exact L. destruct (x - length (events s))%nat as [|k] eqn:D; cbn.
    + intros H; injection H as <-. right. split; [lia|reflexivity].
    + destruct k; discriminate.
Qed.

(* a new event without outcome and without stop callback *)
Lemma sfr_new_event ev s : out ev = None -> has_stop ev = false -> sfr s (snd (new_event ev s)).
Proof.
  intros O S. split; [reflexivity|]. split; [|split].
  - exists []. rewrite app_nil_r. split; [reflexivity|]. split; [intros y []|].
    intros x ev' H O'. destruct (get_new_event_cases _ _ _ _ H) as [H'|[_ ->]]; [left; exists ev'; auto|congruence].
  - intros x ev' H S'. destruct (get_new_event_cases _ _ _ _ H) as [H'|[_ ->]]; [exists ev'; auto|congruence].
  - intros x ev0 H. exists ev0. split; [|auto]. rewrite get_new_event_old; [exact H|eapply get_event_lt, H].
Qed.

(* Environment.schedule of an existing event, NORMAL (the URGENT entries are those of [sfr_new_scheduled]) *)
Lemma sfr_schedule_normal e d s : sfr s (schedule e NORMAL d s).
Proof.
  split; [reflexivity|]. split; [|split].
  - exists [mkEntry (Qred (now s + d)) NORMAL (next_eid s) e]. split; [reflexivity|]. split.
    + intros y [<-|[]]. cbn [e_prio]. discriminate.
    + intros x ev' H O. left. exists ev'. auto.
  - intros x ev' H S. exists ev'. auto.
  - intros x ev H. exists ev. auto.
Qed.

(* set the outcome and schedule: the tail of succeed / fail *)
Lemma sfr_trigger e o s : sfr s (trigger_event e o s).
Proof.
  unfold trigger_event. split; [reflexivity|].
  assert (G : forall x, get_event x (schedule e NORMAL 0 (upd_event e (ev_set_out (Some o)) s)) =
                        if Nat.eqb x e then option_map (ev_set_out (Some o)) (get_event x s) else get_event x s).
  { intros x. change (get_event x (schedule e NORMAL 0 (upd_event e (ev_set_out (Some o)) s)))
      with (get_event x (upd_event e (ev_set_out (Some o)) s)). apply get_upd_event. }
  split; [|split].
  - exists [mkEntry (Qred (now s + 0)) NORMAL (next_eid s) e]. split; [reflexivity|]. split.
    + intros y [<-|[]]. cbn. discriminate.
    + intros x ev'. rewrite G. destruct (Nat.eqb x e) eqn:E.
      * apply Nat.eqb_eq in E. subst x. intros _ _. right. eexists. split; [left; reflexivity|reflexivity].
      * intros H O. left. exists ev'. auto.
  - intros x ev'. rewrite G. destruct (Nat.eqb x e) eqn:E.
    + apply Nat.eqb_eq in E. subst x. destruct (get_event e s) as [ev|]; cbn; [|discriminate].
      intros H; injection H as <-. intros S. exists ev. auto.
    + intros H S. exists ev'. auto.
  - intros x ev H. rewrite G. destruct (Nat.eqb x e) eqn:E.
    + rewrite H. cbn. eexists. split; [reflexivity|]. auto.
    + exists ev. auto.
Qed.

(* a new event that is born triggered and scheduled at once: Timeout (NORMAL, any delay), Initialize and Interruption
   (URGENT, delay 0) *)
Lemma sfr_new_scheduled ev pr d s :
  has_stop ev = false -> (pr = URGENT -> d == 0) ->
  sfr s (schedule (length (events s)) pr d (snd (new_event ev s))).
Proof.
  intros S Hd. split; [reflexivity|]. split; [|split].
  - exists [mkEntry (Qred (now s + d)) pr (next_eid s) (length (events s))]. split; [reflexivity|]. split.
    + intros y [<-|[]]. cbn [e_prio e_time e_ev]. intros P. cbn [now new_event snd set_events]. rewrite Qred_correct. rewrite (Hd P).
      split; [lra|lia].
    + intros x ev' H O. destruct (get_new_event_cases _ _ _ _ H) as [H'|[-> ->]]; [left; exists ev'; auto|].
      right. eexists. split; [left; reflexivity|reflexivity].
  - intros x ev' H S'. destruct (get_new_event_cases _ _ _ _ H) as [H'|[-> ->]]; [exists ev'; auto|congruence].
  - intros x ev0 H. exists ev0. split; [|auto].
    change (get_event x (snd (new_event ev s)) = Some ev0). rewrite get_new_event_old; [exact H|eapply get_event_lt, H].
Qed.

(* ------------------------------------------------------------------------------------------------ *)
(* one lemma per function of the model *)

Lemma sfr_cond_check c op s : sfr s (cond_check c op s).
Proof.
  unfold cond_check.
  destruct (get_event c s) as [cev|]; [|apply sfr_refl].
  destruct (get_event op s) as [oev|]; [|apply sfr_refl].
  destruct (out cev); [apply sfr_refl|].
  destruct (kind cev) as [| | | | |all ops count|]; try apply sfr_refl.
  pose proof (sfr_set_kind c (KCond all ops (S count)) s) as E1.
  destruct (out oev) as [[v|x]|].
  - destruct (cond_evaluate all (length ops) (S count)); [|exact E1].
    eapply sfr_trans; [exact E1|apply sfr_trigger].
  - eapply sfr_trans; [exact E1|]. eapply sfr_trans; [apply sfr_set_defused|apply sfr_trigger].
  - destruct (cond_evaluate all (length ops) (S count)); [|exact E1].
    eapply sfr_trans; [exact E1|apply sfr_trigger].
Qed.

Lemma sfr_remove_check_from c o s : sfr s (remove_check_from c o s).
Proof.
  unfold remove_check_from. destruct (get_event o s) as [oev|] eqn:H; [|apply sfr_refl].
  destruct (cbs oev) as [l|] eqn:C; [|apply sfr_refl]. destruct (mem_cb (CbCheck c) l); [|apply sfr_refl].
  eapply sfr_set_cbs_remove; [reflexivity|eassumption|eassumption].
Qed.

Lemma sfr_remove_ops rec c :
  (forall o s s', rec o s = Some s' -> sfr s s') ->
  forall l s s', remove_ops rec c l s = Some s' -> sfr s s'.
Proof.
  intros Hrec. induction l as [|o t IH]; intros s s'; cbn [remove_ops].
  - intros H; injection H as <-. apply sfr_refl.
  - destruct (get_event o s) as [oev|]; [|discriminate].
    destruct (is_cond oev).
    + destruct (rec o (remove_check_from c o s)) as [s2|] eqn:R; [|discriminate]. intros H.
      eapply sfr_trans; [apply sfr_remove_check_from|]. eapply sfr_trans; [eapply Hrec, R|]. apply IH, H.
    + intros H. eapply sfr_trans; [apply sfr_remove_check_from|]. apply IH, H.
Qed.

Lemma sfr_remove_checks fuel : forall c s s', remove_checks fuel c s = Some s' -> sfr s s'.
Proof.
  induction fuel as [|f IH]; intros c s s'; cbn [remove_checks]; [discriminate|].
  destruct (get_event c s) as [cev|]; [|discriminate].
  destruct (kind cev); try (intros H; injection H as <-; apply sfr_refl).
  apply sfr_remove_ops. exact IH.
Qed.

Lemma sfr_cond_build c s : sfr s (fst (cond_build c s)).
Proof.
  unfold cond_build. destruct (remove_checks (S c) c s) as [s1|] eqn:R; [|apply sfr_refl].
  pose proof (sfr_remove_checks _ _ _ _ R) as E1.
  destruct (get_event c s1) as [cev|] eqn:Hc; [|exact E1].
  destruct (out cev) as [[v|x]|] eqn:O; try exact E1.
  destruct (kind cev); try exact E1.
  destruct (populate (S c) (events s1) ops); [|exact E1].
  cbn [fst]. eapply sfr_trans; [exact E1|].
  apply sfr_upd_event. intros ev Hev. rewrite Hc in Hev. injection Hev as <-. split; [reflexivity|]. intros _. congruence.
Qed.

Lemma sfr_call_timeout d v s : sfr s (fst (call_timeout d v s)).
Proof.
  unfold call_timeout. destruct (neg_delay d); [apply sfr_refl|]. cbn [new_event fst].
  apply (sfr_new_scheduled (mkEvent (Some []) (Some (Ok v)) false KTimeout) NORMAL d s); [reflexivity|discriminate].
Qed.

Lemma sfr_call_event s : sfr s (fst (call_event s)).
Proof. unfold call_event. cbn [new_event fst]. apply (sfr_new_event (mkEvent (Some []) None false KPlain) s); reflexivity. Qed.

Lemma sfr_call_succeed e v s : sfr s (fst (call_succeed e v s)).
Proof.
  unfold call_succeed. destruct (get_event e s) as [ev|]; [|apply sfr_refl].
  destruct (is_triggered ev); [apply sfr_refl|apply sfr_trigger].
Qed.

Lemma sfr_call_fail e x s : sfr s (fst (call_fail e x s)).
Proof.
  unfold call_fail. destruct (get_event e s) as [ev|]; [|apply sfr_refl].
  destruct (is_triggered ev); [apply sfr_refl|]. destruct x; try apply sfr_refl. apply sfr_trigger.
Qed.

Lemma sfr_call_spawn codes code arg s : sfr s (fst (call_spawn codes code arg s)).
Proof.
  unfold call_spawn. destruct (nth_error codes code) as [pr|]; [|apply sfr_refl].
  set (p := length (procs s)). cbn [new_event fst].
  set (s1 := set_events (events s ++ [mkEvent (Some []) None false (KProcess p)]) s).
  eapply sfr_trans; [apply (sfr_new_event (mkEvent (Some []) None false (KProcess p)) s); reflexivity|].
  change (snd (new_event (mkEvent (Some []) None false (KProcess p)) s)) with s1.
  eapply sfr_trans; [|apply sfr_set_procs].
  apply (sfr_new_scheduled (mkEvent (Some [CbResume p]) (Some (Ok VNone)) false (KInit p)) URGENT 0 s1); [reflexivity|].
  intros _. reflexivity.
Qed.

Lemma sfr_call_interrupt e cause s : sfr s (fst (call_interrupt e cause s)).
Proof.
  unfold call_interrupt. destruct (get_event e s) as [ev|]; [|apply sfr_refl].
  destruct (kind ev); try apply sfr_refl.
  destruct (is_triggered ev); [apply sfr_refl|].
  destruct (match active s with Some a => Nat.eqb a p | None => false end); [apply sfr_refl|].
  cbn [new_event fst].
  apply (sfr_new_scheduled (mkEvent (Some [CbInterrupt (length (events s))]) (Some (Fail (EInterrupt, [cause]))) true
                                    (KInterruption p)) URGENT 0 s); [reflexivity|intros _; reflexivity].
Qed.

Lemma sfr_cond_subscribe c ops : forall s, sfr s (cond_subscribe c ops s).
Proof.
  induction ops as [|o t IH]; intros s; cbn [cond_subscribe]; [apply sfr_refl|].
  eapply sfr_trans; [|apply IH].
  destruct (get_event o s) as [oev|]; [|apply sfr_refl].
  destruct (is_processed oev); [apply sfr_cond_check|apply sfr_add_callback; reflexivity].
Qed.

Lemma sfr_call_cond all es s : sfr s (fst (call_cond all es s)).
Proof.
  unfold call_cond. destruct (negb (all_valid es s)); [apply sfr_refl|]. cbn [new_event].
  pose proof (sfr_new_event (mkEvent (Some []) None false (KCond all es 0)) s eq_refl eq_refl) as X1. cbn [new_event snd] in X1.
  destruct es as [|e0 es'].
  - cbn [fst]. eapply sfr_trans; [exact X1|apply sfr_trigger].
  - cbn [fst]. eapply sfr_trans; [exact X1|]. eapply sfr_trans; [apply sfr_cond_subscribe|apply sfr_add_callback; reflexivity].
Qed.

Lemma sfr_call_probe e n s : sfr s (fst (call_probe e n s)).
Proof.
  unfold call_probe. destruct (get_event e s) as [ev|]; [|apply sfr_refl].
  destruct (is_processed ev); [apply sfr_refl|apply sfr_add_callback; reflexivity].
Qed.

Lemma sfr_do_call codes c s : sfr s (fst (do_call codes c s)).
Proof.
  destruct c; cbn [do_call].
  - apply sfr_call_timeout.
  - apply sfr_call_event.
  - apply sfr_call_succeed.
  - apply sfr_call_fail.
  - apply sfr_call_spawn.
  - apply sfr_call_interrupt.
  - apply sfr_call_cond.
  - apply sfr_call_cond.
  - apply sfr_call_probe.
  - rewrite Deliver.call_query_state. apply sfr_refl.
  - apply sfr_refl.
  - apply sfr_refl.
  - apply sfr_add_obs.
  - apply sfr_refl.
  - apply sfr_set_glob.
Qed.

Lemma sfr_run_frag {A} codes (f : frag A) : forall s, sfr s (fst (run_frag codes f s)).
Proof.
  induction f as [v a|v|x|c k IH]; intros s; cbn [run_frag fst]; try apply sfr_refl.
  pose proof (sfr_do_call codes c s) as X. destruct (do_call codes c s) as [s1 o]. cbn [fst] in X.
  eapply sfr_trans; [exact X|apply IH].
Qed.

Lemma sfr_proc_finish p pr o s : sfr s (proc_finish p pr o s).
Proof.
  unfold proc_finish. eapply sfr_trans; [apply sfr_trigger|].
  eapply sfr_trans; [apply sfr_upd_proc|apply sfr_set_active].
Qed.

Lemma sfr_proc_wait p e s : sfr s (proc_wait p e s).
Proof.
  unfold proc_wait. eapply sfr_trans; [apply (sfr_add_callback e (CbResume p)); reflexivity|].
  eapply sfr_trans; [apply sfr_upd_proc|apply sfr_set_active].
Qed.

Lemma sfr_resume_loop codes fuel : forall p e s, sfr s (fst (resume_loop fuel codes p e s)).
Proof.
  induction fuel as [|f IH]; intros p e s; cbn [resume_loop]; [apply sfr_refl|].
  destruct (get_event e s) as [ev|]; [|apply sfr_refl].
  destruct (get_proc p s) as [pr|]; [|apply sfr_refl].
  destruct (out ev) as [o|]; [|apply sfr_refl].
  set (s1 := match o with Fail _ => upd_event e ev_set_defused s | Ok _ => s end).
  assert (E1 : sfr s s1) by (subst s1; destruct o; [apply sfr_refl|apply sfr_set_defused]).
  pose proof (sfr_run_frag codes (resume (pcode pr) (pst pr) o) s1) as E2.
  destruct (run_frag codes (resume (pcode pr) (pst pr) o) s1) as [s2 r]. cbn [fst] in E2.
  eapply sfr_trans; [eapply sfr_trans; [exact E1|exact E2]|].
  destruct r as [v a|v|x].
  - assert (E3 : sfr s2 (put_proc p (proc_set_st pr a) s2)) by apply sfr_upd_proc.
    destruct v; try exact E3.
    destruct (get_event e0 (put_proc p (proc_set_st pr a) s2)) as [ev'|]; [|exact E3].
    destruct (is_processed ev').
    + eapply sfr_trans; [exact E3|apply IH].
    + cbn [fst]. eapply sfr_trans; [exact E3|apply sfr_proc_wait].
  - cbn [fst]. apply sfr_proc_finish.
  - cbn [fst]. apply sfr_proc_finish.
Qed.

Lemma sfr_resume_proc fuel codes p e s : sfr s (fst (resume_proc fuel codes p e s)).
Proof. unfold resume_proc. eapply sfr_trans; [apply sfr_set_active|apply sfr_resume_loop]. Qed.

Lemma sfr_do_interruption fuel codes i s : sfr s (fst (do_interruption fuel codes i s)).
Proof.
  unfold do_interruption.
  destruct (get_event i s) as [iev|]; [|apply sfr_refl].
  destruct (kind iev); try apply sfr_refl.
  destruct (get_proc p s) as [pr|]; [|apply sfr_refl].
  destruct (get_event (pev pr) s) as [pe|]; [|apply sfr_refl].
  destruct (is_triggered pe); [apply sfr_refl|].
  destruct (ptarget pr) as [t|]; [|apply sfr_refl].
  destruct (get_event t s) as [tev|] eqn:Ht; [|apply sfr_refl].
  destruct (cbs tev) as [l|] eqn:C; [|apply sfr_refl].
  destruct (mem_cb (CbResume p) l); [|apply sfr_refl].
  eapply sfr_trans; [|apply sfr_resume_proc].
  eapply sfr_set_cbs_remove; [reflexivity|eassumption|eassumption].
Qed.

Lemma sfr_run_cb fuel codes e c s : sfr s (fst (run_cb fuel codes e c s)).
Proof.
  destruct c; cbn [run_cb fst].
  - apply sfr_resume_proc.
  - apply sfr_cond_check.
  - apply sfr_cond_build.
  - apply sfr_do_interruption.
  - rewrite Deliver.stop_cb_state. apply sfr_refl.
  - apply sfr_add_obs.
Qed.

Lemma sfr_run_callbacks fuel codes e l : forall s, sfr s (fst (run_callbacks fuel codes e l s)).
Proof.
  intros s. apply (run_callbacks_rel fuel codes e (fun _ => True) sfr sfr_refl sfr_trans); [|exact I].
  intros c s0 _. split; [apply sfr_run_cb|exact I].
Qed.

Lemma sfr_cb_chain fuel codes e l s s' : cb_chain fuel codes e l s s' -> sfr s s'.
Proof.
  induction 1 as [s|c t s s1 r s' R _ _ IH]; [apply sfr_refl|].
  eapply sfr_trans; [|exact IH]. pose proof (sfr_run_cb fuel codes e c s) as X. now rewrite R in X.
Qed.

(* step = pop the minimum, mark its event processed ([mid]: the state in which the callback loop starts, or in which
   step() gives up at once), then only things of the frame *)
Definition mid (m : entry) (rest : list entry) (s : state) : state :=
  match get_event (e_ev m) s with
  | Some ev => match cbs ev with Some _ => loop_start m rest s | None => pop_state m rest s end
  | None => pop_state m rest s
  end.

Lemma step_sfr fuel codes s s' r :
  step fuel codes s = (s', r) ->
  (pop_min (agenda s) = None /\ s' = s /\ r = REmpty) \/
  (exists m rest, pop_min (agenda s) = Some (m, rest) /\ sfr (mid m rest s) s').
Proof.
  unfold step, mid. destruct (pop_min (agenda s)) as [[m rest]|].
  - intros H. right. exists m, rest. split; [reflexivity|]. rewrite get_event_pop_state in H.
    destruct (get_event (e_ev m) s) as [ev|]; [|injection H as <- _; apply sfr_refl].
    destruct (cbs ev) as [l|]; [|injection H as <- _; apply sfr_refl].
    fold (loop_start m rest s) in H.
    pose proof (sfr_run_callbacks fuel codes (e_ev m) l (loop_start m rest s)) as X.
    destruct (run_callbacks fuel codes (e_ev m) l (loop_start m rest s)) as [s2 r2].
    cbn [fst] in X.
    assert (s' = s2) by (destruct r2; injection H as <- _; reflexivity). subst s'. exact X.
  - intros H; injection H as <- <-. left. auto.
Qed.
