(* Kernel/StopSplit.v -- C03, part 5: a split run is the free run, up to stop callbacks and inert sentinels -- for EVERY program.

     free_run k           k times step(), whatever the steps answer (Kernel/Stop.v); run() and step(n) are free runs
                          ([run_loop_free], [nsteps_free], [run_none_free])
     ghost hz s           s plus an INERT sentinel: a pre-triggered event of kind KSentinel without any callback, scheduled
                          URGENT at hz -- what is left of the prelude of run(until=hz) once the stop callback is erased
     pre st s             the state in which the steps of stop point st start, stop callbacks erased: [ghost hz s] for a numeric
                          horizon hz > now, s itself for everything else (run(), run(until=event), step(n), refused calls)
     ghost_run            a free run in which ghosts are inserted between the steps
     split_ghost          erase (split run) = ghost_run (the same numbers of steps) -- all stop points, all programs
     split_transparent_events_steps   plans of run(), run(until=event), step(n): erase (split run) = free_run K: the two
                          executions are IDENTICAL (whole trace, agenda, processes, clock) except for stop callbacks
     split_transparent_events_steps_run   ... = the state the uninterrupted run() ends in, when both have emptied the agenda *)
From Coq Require Import ZArith QArith List Bool Lia Lqa.
From ONL Require Import Kernel.Model Kernel.Keys Kernel.Inv Kernel.Order Kernel.Deliver Kernel.DeliverWf Kernel.StopFrame
  Kernel.StopInv Kernel.Stop Kernel.StopSpec Kernel.StopErase.
Import ListNotations.

(* ---- free runs ---- *)

Lemma free_run_S k fuel codes s : free_run (S k) fuel codes s = free_run k fuel codes (fst (step fuel codes s)).
Proof. reflexivity. Qed.

Lemma free_run_add fuel codes : forall a b s, free_run (a + b) fuel codes s = free_run b fuel codes (free_run a fuel codes s).
Proof. induction a as [|a IH]; intros b s; [reflexivity|]. cbn [Nat.add]. rewrite !free_run_S. apply IH. Qed.

Lemma step_empty_agenda fuel codes s : agenda s = [] -> step fuel codes s = (s, REmpty).
Proof. intros A. apply Deliver.step_empty. rewrite A. reflexivity. Qed.

Lemma free_run_empty fuel codes : forall k s, agenda s = [] -> free_run k fuel codes s = s.
Proof. induction k as [|k IH]; intros s A; [reflexivity|]. rewrite free_run_S, (step_empty_agenda _ _ _ A). apply IH, A. Qed.

Lemma free_run_confluent fuel codes a b s :
  agenda (free_run a fuel codes s) = [] -> agenda (free_run b fuel codes s) = [] -> free_run a fuel codes s = free_run b fuel codes s.
Proof.
  intros A B. destruct (Nat.le_ge_cases a b) as [L|L].
  - replace b with (a + (b - a))%nat by lia. rewrite free_run_add. symmetry. apply free_run_empty, A.
  - replace a with (b + (a - b))%nat by lia. rewrite free_run_add. apply free_run_empty, B.
Qed.

Lemma run_loop_free fuel codes u : forall n s, exists k, fst (run_loop n fuel codes u s) = free_run k fuel codes s.
Proof.
  induction n as [|n IH]; intros s; cbn [run_loop]; [exists 0%nat; reflexivity|].
  destruct (step fuel codes s) as [s1 r] eqn:St.
  assert (One : s1 = free_run 1 fuel codes s) by (unfold free_run; cbn; change (step_sel true) with step; now rewrite St).
  destruct r; try (exists 1%nat; exact One).
  destruct (IH s1) as (k & E). exists (S k). rewrite free_run_S, St. exact E.
Qed.

Lemma nsteps_free fuel codes : forall n s, exists k, fst (nsteps n fuel codes s) = free_run k fuel codes s.
Proof.
  induction n as [|n IH]; intros s; [exists 0%nat; reflexivity|]. unfold nsteps. cbn [nsteps_sel]. change (step_sel true) with step.
  destruct (step fuel codes s) as [s1 r] eqn:St.
  assert (One : s1 = free_run 1 fuel codes s) by (unfold free_run; cbn; change (step_sel true) with step; now rewrite St).
  destruct r; try (exists 1%nat; exact One).
  destruct (IH s1) as (k & E). exists (S k). rewrite free_run_S, St. exact E.
Qed.

Lemma run_none_free fuel codes s : exists k, fst (run fuel codes UNone s) = free_run k fuel codes s.
Proof. unfold run. cbn [run_prelude]. apply run_loop_free. Qed.

Lemma uinv_free_run fuel codes : forall k s, uinv s -> uinv (free_run k fuel codes s).
Proof. induction k as [|k IH]; intros s U; [exact U|]. rewrite free_run_S. apply IH, uinv_step, U. Qed.

Lemma uinv_nsteps fuel codes n s : uinv s -> uinv (fst (nsteps n fuel codes s)).
Proof. intros U. destruct (nsteps_free fuel codes n s) as (k & ->). apply uinv_free_run, U. Qed.

(* ---- inert sentinels ---- *)

Definition ghost_ev : event := mkEvent (Some []) (Some (Ok VNone)) false KSentinel.

Definition ghost (hz : Q) (s : state) : state :=
  mkState (now s) (agenda s ++ [num_entry hz s]) (S (next_eid s)) (events s ++ [ghost_ev]) (procs s) (active s) (glob s) (obs s).

Lemma num_start_erase hz s : erase (num_start hz s) = ghost hz (erase s).
Proof.
  unfold erase, num_start, ghost, set_events, num_entry. cbn. rewrite map_app, map_length. reflexivity.
Qed.

Definition pre (st : stop) (s : state) : state :=
  match st with
  | SNum hz => if Qle_bool hz (now s) then s else ghost hz s
  | _ => s
  end.

Lemma uinv_run_stop fuel codes st s : uinv s -> uinv (fst (run_stop fuel codes st s)).
Proof.
  intros U. destruct st as [|hz|e|n]; cbn [run_stop run_stop_sel run_sel]; try apply uinv_run, U. apply uinv_nsteps, U.
Qed.

(* one stop point *)
Lemma run_stop_free fuel codes st s :
  uinv s -> exists k, erase (fst (run_stop fuel codes st s)) = free_run k fuel codes (pre st (erase s)).
Proof.
  intros U. destruct st as [|hz|e|n]; cbn [run_stop run_stop_sel run_sel pre].
  - destruct (run_none_free fuel codes s) as (k & ->). exists k. symmetry. apply free_run_erase, U.
  - unfold run. cbn [run_prelude]. change (now (erase s)) with (now s). destruct (Qle_bool hz (now s)) eqn:L.
    + exists 0%nat. reflexivity.
    + assert (Lt : now s < hz) by (destruct (Qlt_le_dec (now s) hz) as [X|X]; [exact X|apply Qle_bool_iff in X; congruence]).
      pose proof (run_prelude_num hz s Lt) as Pre. cbn [run_prelude] in Pre. rewrite L in Pre. rewrite Pre.
      destruct (run_loop_free fuel codes (UNum hz) fuel (num_start hz s)) as (k & ->). exists k.
      rewrite <- num_start_erase. symmetry. apply free_run_erase.
      eapply uinv_run_prelude; [apply (run_prelude_num hz s Lt)|exact U].
  - unfold run. cbn [run_prelude]. destruct (get_event e s) as [ev|] eqn:H; [|exists 0%nat; reflexivity].
    destruct (is_processed ev); [exists 0%nat; reflexivity|].
    destruct (run_loop_free fuel codes (UEv e) fuel (add_callback e CbStop s)) as (k & ->). exists k.
    rewrite <- (add_stop_erase e s). symmetry. apply free_run_erase, uinv_add_callback, U.
  - change (nsteps_sel true) with nsteps. destruct (nsteps_free fuel codes n s) as (k & ->). exists k. symmetry. apply free_run_erase, U.
Qed.

Fixpoint ghost_run (fuel : nat) (codes : list prog) (plan : list (stop * nat)) (s : state) : state :=
  match plan with
  | [] => s
  | (st, k) :: t => ghost_run fuel codes t (free_run k fuel codes (pre st s))
  end.

Lemma run_split_cons fuel codes st t s :
  fst (run_split fuel codes (st :: t) s) = fst (run_split fuel codes t (fst (run_stop fuel codes st s))).
Proof.
  unfold run_split, run_stop. cbn [run_split_sel]. destruct (run_stop_sel true fuel codes st s) as [s1 r]. cbn [fst].
  destruct (run_split_sel true fuel codes t s1) as [s2 rs]. reflexivity.
Qed.

(* split_transparent_partial, all stop points, all programs: the split run, with its stop callbacks erased, IS the free run
   in which an inert urgent event is scheduled at every accepted numeric horizon; the numbers of steps are those the split
   run made *)
Theorem split_ghost fuel codes : forall plan s,
  uinv s -> exists ks, length ks = length plan /\
    erase (fst (run_split fuel codes plan s)) = ghost_run fuel codes (combine plan ks) (erase s).
Proof.
  induction plan as [|st t IH]; intros s U.
  - exists []. split; reflexivity.
  - rewrite run_split_cons. destruct (run_stop_free fuel codes st s U) as (k & E).
    destruct (IH _ (uinv_run_stop fuel codes st s U)) as (ks & L & E2).
    exists (k :: ks). split; [cbn; now rewrite L|]. cbn [combine ghost_run]. rewrite <- E. exact E2.
Qed.

Definition no_horizon (plan : list stop) : Prop := forall st, In st plan -> match st with SNum _ => False | _ => True end.

Lemma ghost_run_no_horizon fuel codes : forall plan ks s,
  no_horizon plan -> length ks = length plan ->
  ghost_run fuel codes (combine plan ks) s = free_run (fold_right Nat.add 0%nat ks) fuel codes s.
Proof.
  induction plan as [|st t IH]; intros [|k ks] s N L; try discriminate; [reflexivity|].
  cbn [combine ghost_run fold_right]. rewrite free_run_add.
  assert (P : pre st s = s) by (pose proof (N st (or_introl eq_refl)) as X; destruct st; try reflexivity; destruct X).
  rewrite P. apply IH; [intros x Hx; apply N; right; exact Hx|cbn in L; lia].
Qed.

(* split_transparent for plans of run(), run(until=event) and step(n) -- every program, every plan, no hypothesis but the
   well-formedness every execution has: the split run and the free run of K steps end in the same state up to stop callbacks;
   in particular the same trace, the same agenda, the same processes *)
Theorem split_transparent_events_steps fuel codes plan s :
  uinv s -> no_horizon plan -> exists K, erase (fst (run_split fuel codes plan s)) = free_run K fuel codes (erase s).
Proof.
  intros U N. destruct (split_ghost fuel codes plan s U) as (ks & L & E). eexists. rewrite E. apply ghost_run_no_horizon; assumption.
Qed.

(* against the uinterrupted run(): when it returned normally and the split run has emptied the agenda too, the split run ends
   in the state of the uninterrupted run, up to stop callbacks (none, by [calm_run_split], if every run(until=...) returned):
   same trace, step by step *)
Theorem split_transparent_events_steps_run fuel codes plan s U :
  uinv s -> no_stop s -> no_horizon plan ->
  run fuel codes UNone s = (U, ROk) -> agenda (fst (run_split fuel codes plan s)) = [] ->
  erase (fst (run_split fuel codes plan s)) = U /\ obs (fst (run_split fuel codes plan s)) = obs U /\
  logs (fst (run_split fuel codes plan s)) = logs U.
Proof.
  intros Ui Ns N R A.
  destruct (split_transparent_events_steps fuel codes plan s Ui N) as (K & E).
  assert (Es : erase s = s) by (apply erase_id; intros e ev H; destruct (has_stop ev) eqn:T; [destruct (Ns _ _ H T)|reflexivity]).
  rewrite Es in E.
  destruct (run_none_free fuel codes s) as (k & Ek). rewrite R in Ek. cbn [fst] in Ek.
  pose proof (run_all_drains _ _ _ _ R) as Au.
  assert (X : erase (fst (run_split fuel codes plan s)) = U).
  { rewrite E, Ek. apply free_run_confluent; [rewrite <- E; exact A|rewrite <- Ek; exact Au]. }
  split; [exact X|]. split; [rewrite <- X; reflexivity|]. unfold logs. rewrite <- X. reflexivity.
Qed.
