(* Kernel/DeliverExamples.v -- C02: concrete instances showing that the hypotheses of the C02 theorems are satisfiable on
   non-trivial states (computed with vm_compute from a script family), and what the theorems then say about them.

   The family: a shared event G0; two waiters (A catches what it receives, B lets it propagate); a trigger process that
   fails G0 and then tries to succeed it (refused); a child that returns 0 and a parent that joins it. *)
From Coq Require Import ZArith QArith List Bool Lia.
From ONL Require Import Kernel.Model Kernel.Script Kernel.Keys Kernel.Deliver Kernel.DeliverInv Kernel.DeliverWf Kernel.DeliverThm
  Kernel.DeliverVal Kernel.DeliverMore.
Import ListNotations.
Local Open Scope nat_scope.

Definition xA : list instr := [IYield 1 (XReg (G 0)) (L 1) YCatch; ILog (XReg (L 1))].
Definition xB : list instr := [IYield 2 (XReg (G 0)) (L 1) YPropagate].
Definition xT : list instr := [IFail (G 0) (XUser 1 7); ISucceed (G 0) (XInt 0); IQuery (L 1) QOk (G 0); ILog (XReg (L 1))].
Definition xChild : list instr := [ITimeout (L 1) 1 (XInt 0); IYield 3 (XReg (L 1)) (L 2) YCatch; IReturn (XInt 0)].
Definition xParent : list instr := [ISpawn (L 1) 3 XNone; IYield 4 (XReg (L 1)) (L 2) YCatch; ILog (XReg (L 2)); IReturn (XReg (L 2))].
Definition xcodes : list prog := map compile [xA; xB; xT; xChild; xParent].
Definition xsetup : list instr :=
  [IEvent (G 0); ISpawn (G 1) 0 XNone; ISpawn (G 2) 1 XNone; ISpawn (G 3) 2 XNone; ISpawn (G 4) 4 XNone].

Definition x0 : state := fst (exec_top xcodes (exec xsetup []) (init_state 0)).
Definition xstep (s : state) : state := fst (step 50 xcodes s).
Fixpoint xsteps (n : nat) (s : state) : state := match n with O => s | S k => xsteps k (xstep s) end.

Lemma run_callbacks_ok_chain fuel codes e l s s' :
  run_callbacks fuel codes e l s = (s', ROk) -> cb_chain fuel codes e l s s'.
Proof.
  intros R. destruct (run_callbacks_spec _ _ _ _ _ _ _ R) as [[Ch _]|(pre & c & post & smid & _ & _ & _ & N)]; [exact Ch|].
  exfalso. apply N. left. reflexivity.
Qed.

Lemma xsteps_S n s : xsteps (S n) s = xsteps n (xstep s).
Proof. reflexivity. Qed.

Lemma xcreach_step s : creach xcodes s -> snd (step 50 xcodes s) = ROk -> creach xcodes (xstep s).
Proof.
  intros R H. apply cr_step; [exact R|]. apply (step_ok_clean 50 xcodes s (fst (step 50 xcodes s))).
  destruct (step 50 xcodes s) as [s' r]. cbn in *. now subst r.
Qed.

Example x0_clean : creach xcodes x0.
Proof. apply cr_top, cr_init. Qed.

(* after the four Initialize events of A, B, T and the parent ... *)
Example x4_clean : creach xcodes (xsteps 4 x0).
Proof.
  repeat (rewrite xsteps_S). cbn [xsteps].
  repeat (apply xcreach_step; [|vm_compute; reflexivity]). exact x0_clean.
Qed.

(* ... A and B wait for G0 (event 0), which T has failed: the hypotheses of waiter_unique / resumed_exactly_once hold *)
Example x4_waiters :
  exists prA prB ev,
    get_proc 0 (xsteps 4 x0) = Some prA /\ ptarget prA = Some 0 /\
    get_proc 1 (xsteps 4 x0) = Some prB /\ ptarget prB = Some 0 /\
    get_event 0 (xsteps 4 x0) = Some ev /\ cbs ev = Some [CbResume 0; CbResume 1] /\
    out ev = Some (Fail (EUser 1, [VInt 7])) /\ defused ev = false /\ stable_kind (kind ev) = true.
Proof. vm_compute. do 3 eexists. repeat split; reflexivity. Qed.

(* the rejected succeed() left everything as it was: T logged ok = False (0) *)
Example x4_rejected_succeed_changed_nothing :
  In (OLog (Some 2) 0 (VList [VInt 3; VInt 0])) (obs (xsteps 4 x0)) /\
  In (OLog (Some 2) 0 (VList [VInt 2; VExn ERuntime [VInt M_already_triggered]])) (obs (xsteps 4 x0)).
Proof. vm_compute. split; tauto. Qed.

(* the hypotheses of callbacks_exactly_once / resume_gets_outcome / failure_never_lost for the step that processes G0:
   which entry is popped, its callback list, the loop running through *)
Definition xG0_state : state := xsteps 5 x0.     (* after the Initialize of the child too: G0 is next *)

Definition xm : entry := match pop_min (agenda xG0_state) with Some (m, _) => m | None => mkEntry 0 0 0 0 end.
Definition xrest : list entry := match pop_min (agenda xG0_state) with Some (_, r) => r | None => [] end.
Definition xG0_after : state := fst (step 50 xcodes xG0_state).

Example xG0_step :
  exists ev,
    pop_min (agenda xG0_state) = Some (xm, xrest) /\ e_ev xm = 0 /\
    get_event 0 xG0_state = Some ev /\ cbs ev = Some [CbResume 0; CbResume 1] /\
    cb_chain 50 xcodes 0 [CbResume 0; CbResume 1] (loop_start xm xrest xG0_state) xG0_after /\
    step 50 xcodes xG0_state = (xG0_after, ROk) /\
    (* A received the exception (and logged it), B failed with it: B's Process event carries it, undefused *)
    In (OLog (Some 0) 0 (VList [VInt 1; VInt 1; VList [VInt 1; VExn (EUser 1) [VInt 7]]])) (obs xG0_after) /\
    (exists pe, get_event 3 xG0_after = Some pe /\ out pe = Some (Fail (EUser 1, [VInt 7])) /\ defused pe = false).
Proof.
  eexists. split; [vm_compute; reflexivity|]. split; [vm_compute; reflexivity|]. split; [vm_compute; reflexivity|].
  split; [reflexivity|]. split; [apply run_callbacks_ok_chain; vm_compute; reflexivity|].
  split; [vm_compute; reflexivity|]. split; [vm_compute; tauto|]. vm_compute. eexists. repeat split; reflexivity.
Qed.

(* B's failure is unhandled: the step that processes B's Process event (event 3, nobody waits for it) raises it *)
Example xB_failure_raised :
  exists n x, snd (step 50 xcodes (xsteps n x0)) = RRaise x /\ x = (EUser 1, [VInt 7]) /\ n = 8.
Proof. exists 8, (EUser 1, [VInt 7]). vm_compute. repeat split; reflexivity. Qed.

(* the child returns 0: its Process event carries Ok (VInt 0) (process_event_outcome), and the joining parent receives
   exactly 0, not None *)
Example xchild_returns_zero :
  exists n, In (OLog (Some 3) 1 (VList [VInt 3; VInt 0])) (obs (xsteps n x0)) /\ n = 11.
Proof. exists 11. vm_compute. split; [tauto|reflexivity]. Qed.
