(* Kernel/Deliver.v -- C02, part 1: facts about Kernel/Model.v that hold in EVERY state (no invariant needed).

     trigger_once            succeed/fail on a triggered event: RuntimeError, state unchanged; fail(non-exception): ValueError
     grows s s'              "s' is a later state": every event of s still exists, processed stays processed, triggered stays
                             triggered, defused stays defused, the kind is the same (up to the counter of a condition)
     grows_<function>        one lemma per function of the model (do_call ... step, run, exec_top)
     later / processed_forever   along every execution cbs e = None is stable; add_callback on a processed event is the identity
     cb_chain / step_invokes     the step that processes e invokes the callbacks e had at the start of the step, in list order,
                             each once, up to the first callback that lets an exception escape
     resume_loop_eq, resume_proc_feeds     Process._resume: what is fed to the automaton, defusal, inner loop
     proc_finish_spec        the Process event gets the automaton's result and is scheduled NORMAL, delay 0
     step_failure / run_loop_propagates    an undefused failure is returned by step, and by run, at that instant *)
From Coq Require Import ZArith QArith List Bool Lia.
From ONL Require Import Kernel.Model.
Import ListNotations.
Local Open Scope nat_scope.

(* ------------------------------------------------------------------------------------------------ *)
(* small list facts *)

Lemma nth_error_upd_nth {A} (f : A -> A) l n m :
  nth_error (upd_nth n f l) m = if Nat.eqb m n then option_map f (nth_error l m) else nth_error l m.
Proof.
  revert n m. induction l as [|x t IH]; intros n m.
  - destruct n; destruct m; cbn; try reflexivity. destruct (Nat.eqb m n); reflexivity.
  - destruct n, m; cbn [upd_nth nth_error Nat.eqb option_map]; try reflexivity. apply IH.
Qed.

Lemma upd_nth_length {A} (f : A -> A) l n : length (upd_nth n f l) = length l.
Proof. revert n. induction l as [|x t IH]; intros [|n]; cbn; try reflexivity. now rewrite IH. Qed.

Lemma upd_nth_id {A} (f : A -> A) l n :
  (forall x, nth_error l n = Some x -> f x = x) -> upd_nth n f l = l.
Proof.
  revert n. induction l as [|x t IH]; intros [|n] H; cbn; try reflexivity.
  - now rewrite (H x eq_refl).
  - f_equal. apply IH. exact H.
Qed.

Lemma get_upd_event e f s x :
  get_event x (upd_event e f s) = if Nat.eqb x e then option_map f (get_event x s) else get_event x s.
Proof. unfold get_event, upd_event. cbn. apply nth_error_upd_nth. Qed.

Lemma get_upd_event_same e f s ev : get_event e s = Some ev -> get_event e (upd_event e f s) = Some (f ev).
Proof. intros H. rewrite get_upd_event, Nat.eqb_refl, H. reflexivity. Qed.

Lemma get_upd_event_other e f s x : x <> e -> get_event x (upd_event e f s) = get_event x s.
Proof. intros H. rewrite get_upd_event. apply Nat.eqb_neq in H. now rewrite H. Qed.

Lemma get_new_event_old ev s x : x < length (events s) -> get_event x (snd (new_event ev s)) = get_event x s.
Proof. intros H. unfold get_event. cbn. now rewrite nth_error_app1. Qed.

Lemma get_new_event_new ev s : get_event (length (events s)) (snd (new_event ev s)) = Some ev.
Proof. unfold get_event. cbn. rewrite nth_error_app2 by lia. now rewrite Nat.sub_diag. Qed.

Lemma get_event_lt e s ev : get_event e s = Some ev -> e < length (events s).
Proof. intros H. apply nth_error_Some. unfold get_event in H. congruence. Qed.

Lemma get_proc_upd p f s q :
  get_proc q (upd_proc p f s) = if Nat.eqb q p then option_map f (get_proc q s) else get_proc q s.
Proof. unfold get_proc, upd_proc. cbn. apply nth_error_upd_nth. Qed.

(* ------------------------------------------------------------------------------------------------ *)
(* trigger_once: a second succeed / fail raises RuntimeError and changes nothing *)

Lemma succeed_triggered e v s ev :
  get_event e s = Some ev -> out ev <> None ->
  call_succeed e v s = (s, Fail (kexn ERuntime M_already_triggered)).
Proof.
  intros H O. unfold call_succeed. rewrite H. unfold is_triggered. destruct (out ev); [reflexivity|contradiction].
Qed.

Lemma fail_triggered e x s ev :
  get_event e s = Some ev -> out ev <> None ->
  call_fail e x s = (s, Fail (kexn ERuntime M_already_triggered)).
Proof.
  intros H O. unfold call_fail. rewrite H. unfold is_triggered. destruct (out ev); [reflexivity|contradiction].
Qed.

Definition is_exn_val (v : val) : bool := match v with VExn _ _ => true | _ => false end.

Lemma fail_non_exception e x s ev :
  get_event e s = Some ev -> out ev = None -> is_exn_val x = false ->
  call_fail e x s = (s, Fail (kexn EValue M_not_exception)).
Proof.
  intros H O X. unfold call_fail. rewrite H. unfold is_triggered. rewrite O. destruct x; try reflexivity. discriminate.
Qed.

(* the first trigger: the outcome is exactly what was passed, scheduled NORMAL with delay 0, behind everything *)
Lemma trigger_event_spec e o s ev :
  get_event e s = Some ev ->
  let s' := trigger_event e o s in
  get_event e s' = Some (ev_set_out (Some o) ev) /\
  agenda s' = agenda s ++ [mkEntry (Qred (now s + 0)%Q) NORMAL (next_eid s) e] /\
  next_eid s' = S (next_eid s) /\ now s' = now s /\ procs s' = procs s /\
  (forall x, x <> e -> get_event x s' = get_event x s).
Proof.
  intros H. cbn zeta. unfold trigger_event, schedule. cbn.
  split; [|split; [reflexivity|split; [reflexivity|split; [reflexivity|split; [reflexivity|]]]]].
  - change (get_event e (upd_event e (ev_set_out (Some o)) s) = Some (ev_set_out (Some o) ev)).
    apply get_upd_event_same, H.
  - intros x Hx. change (get_event x (upd_event e (ev_set_out (Some o)) s) = get_event x s).
    apply get_upd_event_other, Hx.
Qed.

Lemma succeed_pending e v s ev :
  get_event e s = Some ev -> out ev = None ->
  call_succeed e v s = (trigger_event e (Ok v) s, Ok (VEv e)).
Proof. intros H O. unfold call_succeed. rewrite H. unfold is_triggered. now rewrite O. Qed.

Lemma fail_pending e c args s ev :
  get_event e s = Some ev -> out ev = None ->
  call_fail e (VExn c args) s = (trigger_event e (Fail (c, args)) s, Ok (VEv e)).
Proof. intros H O. unfold call_fail. rewrite H. unfold is_triggered. now rewrite O. Qed.

(* ------------------------------------------------------------------------------------------------ *)
(* grows: the order "later state" on event stores *)

Definition ksame (k k' : ekind) : Prop :=
  match k, k' with
  | KCond a o _, KCond a' o' _ => a = a' /\ o = o'
  | KCond _ _ _, _ => False
  | _, _ => k = k'
  end.

Lemma ksame_refl k : ksame k k.
Proof. destruct k; cbn; auto. Qed.

Lemma ksame_trans k1 k2 k3 : ksame k1 k2 -> ksame k2 k3 -> ksame k1 k3.
Proof.
  destruct k1; cbn; intros H; try (subst k2; exact (fun x => x)).
  destruct k2; try contradiction. destruct H as [-> ->]. exact (fun x => x).
Qed.

Record ev_le (ev ev' : event) : Prop := mkEvLe {
  le_cbs : cbs ev = None -> cbs ev' = None;
  le_out : out ev <> None -> out ev' <> None;
  le_def : defused ev = true -> defused ev' = true;
  le_kind : ksame (kind ev) (kind ev') }.

Lemma ev_le_refl ev : ev_le ev ev.
Proof. constructor; auto. apply ksame_refl. Qed.

Lemma ev_le_trans a b c : ev_le a b -> ev_le b c -> ev_le a c.
Proof. intros [A1 A2 A3 A4] [B1 B2 B3 B4]. constructor; auto. eapply ksame_trans; eassumption. Qed.

Definition grows (s s' : state) : Prop :=
  forall e ev, get_event e s = Some ev -> exists ev', get_event e s' = Some ev' /\ ev_le ev ev'.

Lemma grows_refl s : grows s s.
Proof. intros e ev H. exists ev. split; [exact H|apply ev_le_refl]. Qed.

Lemma grows_trans s1 s2 s3 : grows s1 s2 -> grows s2 s3 -> grows s1 s3.
Proof.
  intros H1 H2 e ev H. destruct (H1 _ _ H) as (ev2 & G2 & L2). destruct (H2 _ _ G2) as (ev3 & G3 & L3).
  exists ev3. split; [exact G3|eapply ev_le_trans; eassumption].
Qed.

Lemma grows_same_events s s' : events s' = events s -> grows s s'.
Proof. intros E e ev H. exists ev. unfold get_event in *. rewrite E. split; [exact H|apply ev_le_refl]. Qed.

Lemma grows_upd_event e f s : (forall ev, get_event e s = Some ev -> ev_le ev (f ev)) -> grows s (upd_event e f s).
Proof.
  intros Hf x ev H. rewrite get_upd_event. destruct (Nat.eqb x e) eqn:E.
  - apply Nat.eqb_eq in E. subst x. rewrite H. cbn. exists (f ev). split; [reflexivity|apply Hf, H].
  - exists ev. split; [exact H|apply ev_le_refl].
Qed.

Lemma grows_new_event ev s : grows s (snd (new_event ev s)).
Proof.
  intros x ev0 H. exists ev0. split; [|apply ev_le_refl].
  rewrite get_new_event_old; [exact H|eapply get_event_lt, H].
Qed.

Lemma grows_schedule e p d s : grows s (schedule e p d s).
Proof. apply grows_same_events. reflexivity. Qed.

Lemma grows_set_out e o s : grows s (upd_event e (ev_set_out (Some o)) s).
Proof. apply grows_upd_event. intros ev _. constructor; cbn; auto; [discriminate|apply ksame_refl]. Qed.
Lemma grows_set_defused e s : grows s (upd_event e ev_set_defused s).
Proof. apply grows_upd_event. intros ev _. constructor; cbn; auto. apply ksame_refl. Qed.
Lemma grows_set_cbs e c s : (c <> None -> forall ev, get_event e s = Some ev -> cbs ev <> None) -> grows s (upd_event e (ev_set_cbs c) s).
Proof.
  intros Hc. apply grows_upd_event. intros ev H. constructor; cbn; auto; [|apply ksame_refl].
  intros N. destruct c as [l|]; [|reflexivity]. exfalso. apply (Hc ltac:(discriminate) _ H N).
Qed.
Lemma grows_add_callback e c s : grows s (add_callback e c s).
Proof.
  apply grows_upd_event. intros ev _. unfold ev_add_cb. destruct (cbs ev) eqn:C; [|apply ev_le_refl].
  constructor; cbn; auto; [congruence|apply ksame_refl].
Qed.

Lemma grows_trigger e o s : grows s (trigger_event e o s).
Proof. unfold trigger_event. eapply grows_trans; [apply grows_set_out|apply grows_schedule]. Qed.

Lemma grows_cond_check c op s : grows s (cond_check c op s).
Proof.
  unfold cond_check.
  destruct (get_event c s) as [cev|] eqn:Hc; [|apply grows_refl].
  destruct (get_event op s) as [oev|]; [|apply grows_refl].
  destruct (out cev); [apply grows_refl|].
  destruct (kind cev) as [| | | | |all ops count|] eqn:Kc; try apply grows_refl.
  assert (E1 : grows s (upd_event c (ev_set_kind (KCond all ops (S count))) s)).
  { apply grows_upd_event. intros ev Hev. rewrite Hc in Hev. injection Hev as <-.
    constructor; cbn; auto. rewrite Kc. cbn. auto. }
  destruct (out oev) as [[v|x]|].
  - destruct (cond_evaluate all (length ops) (S count)); [|exact E1].
    eapply grows_trans; [exact E1|apply grows_trigger].
  - eapply grows_trans; [exact E1|]. eapply grows_trans; [apply grows_set_defused|apply grows_trigger].
  - destruct (cond_evaluate all (length ops) (S count)); [|exact E1].
    eapply grows_trans; [exact E1|apply grows_trigger].
Qed.

Lemma grows_remove_check_from c o s : grows s (remove_check_from c o s).
Proof.
  unfold remove_check_from. destruct (get_event o s) as [oev|] eqn:H; [|apply grows_refl].
  destruct (cbs oev) as [l|] eqn:C; [|apply grows_refl]. destruct (mem_cb (CbCheck c) l); [|apply grows_refl].
  apply grows_set_cbs. intros _ ev Hev. rewrite H in Hev. injection Hev as <-. congruence.
Qed.

Lemma grows_remove_ops rec c :
  (forall o s s', rec o s = Some s' -> grows s s') ->
  forall l s s', remove_ops rec c l s = Some s' -> grows s s'.
Proof.
  intros Hrec. induction l as [|o t IH]; intros s s'; cbn [remove_ops].
  - intros H; injection H as <-. apply grows_refl.
  - destruct (get_event o s) as [oev|]; [|discriminate].
    destruct (is_cond oev).
    + destruct (rec o (remove_check_from c o s)) as [s2|] eqn:R; [|discriminate]. intros H.
      eapply grows_trans; [apply grows_remove_check_from|]. eapply grows_trans; [eapply Hrec, R|]. apply IH, H.
    + intros H. eapply grows_trans; [apply grows_remove_check_from|]. apply IH, H.
Qed.

Lemma grows_remove_checks fuel : forall c s s', remove_checks fuel c s = Some s' -> grows s s'.
Proof.
  induction fuel as [|f IH]; intros c s s'; cbn [remove_checks]; [discriminate|].
  destruct (get_event c s) as [cev|]; [|discriminate].
  destruct (kind cev); try (intros H; injection H as <-; apply grows_refl).
  apply grows_remove_ops. exact IH.
Qed.

Lemma grows_cond_build c s : grows s (fst (cond_build c s)).
Proof.
  unfold cond_build. destruct (remove_checks (S c) c s) as [s1|] eqn:R; [|apply grows_refl].
  pose proof (grows_remove_checks _ _ _ _ R) as E1.
  destruct (get_event c s1) as [cev|]; [|exact E1].
  destruct (out cev) as [[v|x]|]; try exact E1.
  destruct (kind cev); try exact E1.
  destruct (populate (S c) (events s1) ops); [|exact E1].
  cbn [fst]. eapply grows_trans; [exact E1|apply grows_set_out].
Qed.

Lemma grows_call_timeout d v s : grows s (fst (call_timeout d v s)).
Proof.
  unfold call_timeout. destruct (neg_delay d); [apply grows_refl|].
  pose proof (grows_new_event (mkEvent (Some []) (Some (Ok v)) false KTimeout) s) as X.
  destruct (new_event _ s) as [e s1]. cbn [fst snd] in *. eapply grows_trans; [exact X|apply grows_schedule].
Qed.

Lemma grows_call_event s : grows s (fst (call_event s)).
Proof.
  unfold call_event. pose proof (grows_new_event (mkEvent (Some []) None false KPlain) s) as X.
  destruct (new_event _ s) as [e s1]. exact X.
Qed.

Lemma grows_call_succeed e v s : grows s (fst (call_succeed e v s)).
Proof.
  unfold call_succeed. destruct (get_event e s) as [ev|]; [|apply grows_refl].
  destruct (is_triggered ev); [apply grows_refl|apply grows_trigger].
Qed.

Lemma grows_call_fail e x s : grows s (fst (call_fail e x s)).
Proof.
  unfold call_fail. destruct (get_event e s) as [ev|]; [|apply grows_refl].
  destruct (is_triggered ev); [apply grows_refl|]. destruct x; try apply grows_refl. apply grows_trigger.
Qed.

Lemma grows_call_spawn codes code arg s : grows s (fst (call_spawn codes code arg s)).
Proof.
  unfold call_spawn. destruct (nth_error codes code) as [pr|]; [|apply grows_refl].
  set (p := length (procs s)).
  pose proof (grows_new_event (mkEvent (Some []) None false (KProcess p)) s) as X1.
  destruct (new_event _ s) as [pe s1]. cbn [snd] in X1.
  pose proof (grows_new_event (mkEvent (Some [CbResume p]) (Some (Ok VNone)) false (KInit p)) s1) as X2.
  destruct (new_event _ s1) as [ie s2]. cbn [snd] in X2. cbn [fst].
  eapply grows_trans; [exact X1|]. eapply grows_trans; [exact X2|]. apply grows_same_events. reflexivity.
Qed.

Lemma grows_call_interrupt e cause s : grows s (fst (call_interrupt e cause s)).
Proof.
  unfold call_interrupt. destruct (get_event e s) as [ev|]; [|apply grows_refl].
  destruct (kind ev); try apply grows_refl.
  destruct (is_triggered ev); [apply grows_refl|].
  destruct (match active s with Some a => Nat.eqb a p | None => false end); [apply grows_refl|].
  pose proof (grows_new_event (mkEvent (Some [CbInterrupt (length (events s))]) (Some (Fail (EInterrupt, [cause]))) true (KInterruption p)) s) as X1.
  destruct (new_event _ s) as [i s1]. cbn [fst snd] in *. eapply grows_trans; [exact X1|apply grows_schedule].
Qed.

Lemma grows_cond_subscribe c ops : forall s, grows s (cond_subscribe c ops s).
Proof.
  induction ops as [|o t IH]; intros s; cbn [cond_subscribe]; [apply grows_refl|].
  eapply grows_trans; [|apply IH].
  destruct (get_event o s) as [oev|]; [|apply grows_refl].
  destruct (is_processed oev); [apply grows_cond_check|apply grows_add_callback].
Qed.

Lemma grows_call_cond all es s : grows s (fst (call_cond all es s)).
Proof.
  unfold call_cond. destruct (negb (all_valid es s)); [apply grows_refl|].
  pose proof (grows_new_event (mkEvent (Some []) None false (KCond all es 0)) s) as X1.
  destruct (new_event _ s) as [c s1]. cbn [fst snd] in X1.
  destruct es as [|e0 es'].
  - cbn [fst]. eapply grows_trans; [exact X1|apply grows_trigger].
  - cbn [fst]. eapply grows_trans; [exact X1|]. eapply grows_trans; [apply grows_cond_subscribe|apply grows_add_callback].
Qed.

Lemma grows_call_probe e n s : grows s (fst (call_probe e n s)).
Proof.
  unfold call_probe. destruct (get_event e s) as [ev|]; [|apply grows_refl].
  destruct (is_processed ev); [apply grows_refl|apply grows_add_callback].
Qed.

Lemma call_query_state q e s : fst (call_query q e s) = s.
Proof.
  unfold call_query. destruct (get_event e s) as [ev|]; [|reflexivity].
  destruct q; try reflexivity.
  - destruct (out ev) as [[?|?]|]; reflexivity.
  - destruct (raw_value ev); reflexivity.
  - destruct (kind ev); reflexivity.
Qed.

Lemma grows_do_call codes c s : grows s (fst (do_call codes c s)).
Proof.
  destruct c; cbn [do_call].
  - apply grows_call_timeout.
  - apply grows_call_event.
  - apply grows_call_succeed.
  - apply grows_call_fail.
  - apply grows_call_spawn.
  - apply grows_call_interrupt.
  - apply grows_call_cond.
  - apply grows_call_cond.
  - apply grows_call_probe.
  - rewrite call_query_state. apply grows_refl.
  - apply grows_refl.
  - apply grows_refl.
  - apply grows_same_events. reflexivity.
  - apply grows_refl.
  - apply grows_same_events. reflexivity.
Qed.

Lemma grows_run_frag {A} codes (f : frag A) : forall s, grows s (fst (run_frag codes f s)).
Proof.
  induction f as [v a|v|x|c k IH]; intros s; cbn [run_frag fst]; try apply grows_refl.
  pose proof (grows_do_call codes c s) as X. destruct (do_call codes c s) as [s1 o]. cbn [fst] in X.
  eapply grows_trans; [exact X|apply IH].
Qed.

Lemma grows_upd_proc p f s : grows s (upd_proc p f s).
Proof. apply grows_same_events. reflexivity. Qed.
Lemma grows_set_active a s : grows s (set_active a s).
Proof. apply grows_same_events. reflexivity. Qed.

Lemma grows_proc_finish p pr o s : grows s (proc_finish p pr o s).
Proof.
  unfold proc_finish. eapply grows_trans; [apply grows_trigger|].
  eapply grows_trans; [apply grows_upd_proc|apply grows_set_active].
Qed.

Lemma grows_proc_wait p e s : grows s (proc_wait p e s).
Proof.
  unfold proc_wait. eapply grows_trans; [apply grows_add_callback|].
  eapply grows_trans; [apply grows_upd_proc|apply grows_set_active].
Qed.

Lemma grows_resume_loop codes fuel : forall p e s, grows s (fst (resume_loop fuel codes p e s)).
Proof.
  induction fuel as [|f IH]; intros p e s; cbn [resume_loop]; [apply grows_refl|].
  destruct (get_event e s) as [ev|]; [|apply grows_refl].
  destruct (get_proc p s) as [pr|]; [|apply grows_refl].
  destruct (out ev) as [o|]; [|apply grows_refl].
  set (s1 := match o with Fail _ => upd_event e ev_set_defused s | Ok _ => s end).
  assert (E1 : grows s s1) by (subst s1; destruct o; [apply grows_refl|apply grows_set_defused]).
  pose proof (grows_run_frag codes (resume (pcode pr) (pst pr) o) s1) as E2.
  destruct (run_frag codes (resume (pcode pr) (pst pr) o) s1) as [s2 r]. cbn [fst] in E2.
  eapply grows_trans; [eapply grows_trans; [exact E1|exact E2]|].
  destruct r as [v a|v|x].
  - assert (E3 : grows s2 (put_proc p (proc_set_st pr a) s2)) by apply grows_upd_proc.
    destruct v; try exact E3.
    destruct (get_event e0 (put_proc p (proc_set_st pr a) s2)) as [ev'|]; [|exact E3].
    destruct (is_processed ev').
    + eapply grows_trans; [exact E3|apply IH].
    + cbn [fst]. eapply grows_trans; [exact E3|apply grows_proc_wait].
  - cbn [fst]. apply grows_proc_finish.
  - cbn [fst]. apply grows_proc_finish.
Qed.

Lemma grows_resume_proc fuel codes p e s : grows s (fst (resume_proc fuel codes p e s)).
Proof. unfold resume_proc. eapply grows_trans; [apply grows_set_active|apply grows_resume_loop]. Qed.

Lemma grows_do_interruption fuel codes i s : grows s (fst (do_interruption fuel codes i s)).
Proof.
  unfold do_interruption.
  destruct (get_event i s) as [iev|]; [|apply grows_refl].
  destruct (kind iev); try apply grows_refl.
  destruct (get_proc p s) as [pr|]; [|apply grows_refl].
  destruct (get_event (pev pr) s) as [pe|]; [|apply grows_refl].
  destruct (is_triggered pe); [apply grows_refl|].
  destruct (ptarget pr) as [t|]; [|apply grows_refl].
  destruct (get_event t s) as [tev|] eqn:Ht; [|apply grows_refl].
  destruct (cbs tev) as [l|] eqn:C; [|apply grows_refl].
  destruct (mem_cb (CbResume p) l); [|apply grows_refl].
  eapply grows_trans; [|apply grows_resume_proc].
  apply grows_set_cbs. intros _ ev Hev. rewrite Ht in Hev. injection Hev as <-. congruence.
Qed.

Lemma stop_cb_state e s : fst (stop_cb e s) = s.
Proof. unfold stop_cb. destruct (get_event e s) as [ev|]; [|reflexivity]. destruct (out ev) as [[?|?]|]; reflexivity. Qed.

Lemma grows_run_cb fuel codes e c s : grows s (fst (run_cb fuel codes e c s)).
Proof.
  destruct c; cbn [run_cb fst].
  - apply grows_resume_proc.
  - apply grows_cond_check.
  - apply grows_cond_build.
  - apply grows_do_interruption.
  - rewrite stop_cb_state. apply grows_refl.
  - apply grows_same_events. reflexivity.
Qed.

(* the state the loop leaves after c :: t is the state c left, or the state the loop over t left from there *)
Lemma run_callbacks_fst_cases fuel codes e c t s :
  fst (run_callbacks fuel codes e (c :: t) s) = fst (run_cb fuel codes e c s) \/
  fst (run_callbacks fuel codes e (c :: t) s) = fst (run_callbacks fuel codes e t (fst (run_cb fuel codes e c s))).
Proof.
  cbn [run_callbacks]. destruct (run_cb fuel codes e c s) as [s1 r]. cbn [fst].
  destruct r; try (right; reflexivity);
    (destruct (is_stop_cb c && is_exit _); [|left; reflexivity];
     destruct (run_callbacks fuel codes e t s1) as [s2 r2]; right; destruct r2; reflexivity).
Qed.

(* a relation (and an invariant) kept by every callback is kept by the loop *)
Lemma run_callbacks_rel fuel codes e (Q : state -> Prop) (P : state -> state -> Prop) :
  (forall s, P s s) -> (forall a b c, P a b -> P b c -> P a c) ->
  (forall c s, Q s -> P s (fst (run_cb fuel codes e c s)) /\ Q (fst (run_cb fuel codes e c s))) ->
  forall l s, Q s -> P s (fst (run_callbacks fuel codes e l s)) /\ Q (fst (run_callbacks fuel codes e l s)).
Proof.
  intros Prefl Ptrans Hcb. induction l as [|c t IH]; intros s Qs; [cbn; auto|].
  destruct (Hcb c s Qs) as [P1 Q1]. destruct (IH _ Q1) as [P2 Q2].
  destruct (run_callbacks_fst_cases fuel codes e c t s) as [E|E]; rewrite E; [auto|]. split; [eapply Ptrans; eauto|exact Q2].
Qed.

Lemma grows_run_callbacks fuel codes e l : forall s, grows s (fst (run_callbacks fuel codes e l s)).
Proof.
  intros s. apply (run_callbacks_rel fuel codes e (fun _ => True) grows grows_refl grows_trans); [|exact I].
  intros c s0 _. split; [apply grows_run_cb|exact I].
Qed.

Lemma grows_pop_state m rest s : grows s (pop_state m rest s).
Proof. apply grows_same_events. reflexivity. Qed.

Lemma grows_step fuel codes s : grows s (fst (step fuel codes s)).
Proof.
  unfold step. destruct (pop_min (agenda s)) as [[m rest]|]; [|apply grows_refl].
  eapply grows_trans; [apply (grows_pop_state m rest)|].
  destruct (get_event (e_ev m) (pop_state m rest s)) as [ev|]; [|apply grows_refl].
  destruct (cbs ev) as [l|]; [|apply grows_refl].
  pose proof (grows_run_callbacks fuel codes (e_ev m) l (upd_event (e_ev m) (ev_set_cbs None) (pop_state m rest s))) as X.
  destruct (run_callbacks fuel codes (e_ev m) l (upd_event (e_ev m) (ev_set_cbs None) (pop_state m rest s))) as [s2 r2].
  cbn [fst] in X.
  assert (G : grows (pop_state m rest s) s2).
  { eapply grows_trans; [|exact X]. apply grows_set_cbs. intros N. exfalso. apply N. reflexivity. }
  destruct r2; exact G.
Qed.

Lemma grows_run_prelude u s s1 : run_prelude u s = inr s1 -> grows s s1.
Proof.
  destruct u as [|t|e]; cbn [run_prelude].
  - intros H; injection H as <-. apply grows_refl.
  - destruct (Qle_bool t (now s)); [discriminate|].
    pose proof (grows_new_event (mkEvent (Some []) (Some (Ok VNone)) false KSentinel) s) as X1.
    destruct (new_event _ s) as [e s0]. cbn [snd] in X1.
    intros H; injection H as <-.
    eapply grows_trans; [exact X1|]. eapply grows_trans; [apply grows_schedule|apply grows_add_callback].
  - destruct (get_event e s) as [ev|]; [|discriminate].
    destruct (is_processed ev); [discriminate|]. intros H; injection H as <-. apply grows_add_callback.
Qed.

Lemma run_prelude_inl u s s' r : run_prelude u s = inl (s', r) -> s' = s.
Proof.
  destruct u as [|t|e]; cbn [run_prelude]; [discriminate| |].
  - destruct (Qle_bool t (now s)); [intros H; injection H as <- _; reflexivity|].
    destruct (new_event _ s); discriminate.
  - destruct (get_event e s) as [ev|]; [|intros H; injection H as <- _; reflexivity].
    destruct (is_processed ev); [intros H; injection H as <- _; reflexivity|discriminate].
Qed.

Lemma grows_run_loop fuel codes u : forall n s, grows s (fst (run_loop n fuel codes u s)).
Proof.
  induction n as [|n IH]; intros s; cbn [run_loop]; [apply grows_refl|].
  pose proof (grows_step fuel codes s) as X. destruct (step fuel codes s) as [s1 r]. cbn [fst] in X.
  destruct r; try exact X. eapply grows_trans; [exact X|apply IH].
Qed.

Lemma grows_run fuel codes u s : grows s (fst (run fuel codes u s)).
Proof.
  unfold run. destruct (run_prelude u s) as [[s' r]|s1] eqn:P.
  - apply run_prelude_inl in P. subst s'. apply grows_refl.
  - eapply grows_trans; [eapply grows_run_prelude, P|apply grows_run_loop].
Qed.

Lemma grows_exec_top {A} codes (f : frag A) s : grows s (fst (exec_top codes f s)).
Proof. apply grows_run_frag. Qed.

(* ------------------------------------------------------------------------------------------------ *)
(* executions: any sequence of module-level code, step() and run() calls (and the prelude of run() alone, so that the
   inside of a run() is an execution too), with any fuel and any result *)

Inductive later (codes : list prog) : state -> state -> Prop :=
| later_refl s : later codes s s
| later_top s s' A (f : frag A) : later codes s s' -> later codes s (fst (exec_top codes f s'))
| later_prelude s s' u s1 : later codes s s' -> run_prelude u s' = inr s1 -> later codes s s1
| later_step s s' fuel : later codes s s' -> later codes s (fst (step fuel codes s'))
| later_run s s' fuel u : later codes s s' -> later codes s (fst (run fuel codes u s')).

Lemma later_grows codes s s' : later codes s s' -> grows s s'.
Proof.
  induction 1 as [s|s s' A f _ IH|s s' u s1 _ IH P|s s' fuel _ IH|s s' fuel u _ IH].
  - apply grows_refl.
  - eapply grows_trans; [exact IH|apply grows_exec_top].
  - eapply grows_trans; [exact IH|eapply grows_run_prelude, P].
  - eapply grows_trans; [exact IH|apply grows_step].
  - eapply grows_trans; [exact IH|apply grows_run].
Qed.

(* once processed, processed in every later state; and then nothing can be appended to its callbacks *)
Lemma processed_forever codes s s' e ev :
  later codes s s' -> get_event e s = Some ev -> cbs ev = None ->
  exists ev', get_event e s' = Some ev' /\ cbs ev' = None.
Proof.
  intros L H C. destruct (later_grows _ _ _ L _ _ H) as (ev' & G & Le). exists ev'. split; [exact G|apply (le_cbs _ _ Le), C].
Qed.

Lemma triggered_forever codes s s' e ev :
  later codes s s' -> get_event e s = Some ev -> out ev <> None ->
  exists ev', get_event e s' = Some ev' /\ out ev' <> None.
Proof.
  intros L H C. destruct (later_grows _ _ _ L _ _ H) as (ev' & G & Le). exists ev'. split; [exact G|apply (le_out _ _ Le), C].
Qed.

Lemma state_eta s : mkState (now s) (agenda s) (next_eid s) (events s) (procs s) (active s) (glob s) (obs s) = s.
Proof. destruct s; reflexivity. Qed.

Lemma add_callback_processed e c s ev : get_event e s = Some ev -> cbs ev = None -> add_callback e c s = s.
Proof.
  intros H C. unfold add_callback, upd_event, set_events.
  rewrite upd_nth_id; [apply state_eta|].
  intros x Hx. unfold get_event in H. rewrite H in Hx. injection Hx as <-. unfold ev_add_cb. now rewrite C.
Qed.

(* ------------------------------------------------------------------------------------------------ *)
(* the callback loop of step() *)

(* what a callback may answer without ending the loop: it returns, or it is the stop callback of run(until) and raises
   StopSimulation / the failure of the until-event -- step() remembers that and raises it after the loop (repaired code) *)
Definition cb_ok (c : cb) (r : result) : Prop := r = ROk \/ (is_stop_cb c = true /\ is_exit r = true).

(* [cb_chain fuel codes e l s s']: the callbacks l were invoked for e one after the other, in list order, each once,
   none of them ending the loop, taking the state from s to s' *)
Inductive cb_chain (fuel : nat) (codes : list prog) (e : evid) : list cb -> state -> state -> Prop :=
| chain_nil s : cb_chain fuel codes e [] s s
| chain_cons c t s s1 r s' :
    run_cb fuel codes e c s = (s1, r) -> cb_ok c r -> cb_chain fuel codes e t s1 s' -> cb_chain fuel codes e (c :: t) s s'.

Lemma cb_chain_app fuel codes e l1 l2 s s1 s2 :
  cb_chain fuel codes e l1 s s1 -> cb_chain fuel codes e l2 s1 s2 -> cb_chain fuel codes e (l1 ++ l2) s s2.
Proof. induction 1; cbn; [auto|]. intros H2. econstructor; eauto. Qed.

Lemma cb_chain_grows fuel codes e l s s' : cb_chain fuel codes e l s s' -> grows s s'.
Proof.
  induction 1 as [s|c t s s1 r s' R _ _ IH]; [apply grows_refl|].
  eapply grows_trans; [|exact IH]. pose proof (grows_run_cb fuel codes e c s) as X. now rewrite R in X.
Qed.

Lemma not_ok_cases (r : result) : r = ROk \/ r <> ROk.
Proof. destruct r; auto; right; discriminate. Qed.

Lemma match_not_ok {A} (r : result) (a b : A) : r <> ROk ->
  match r with ROk => a | _ => b end = b.
Proof. destruct r; [contradiction| | | | |]; reflexivity. Qed.

Lemma is_exit_not_ok r : is_exit r = true -> r <> ROk.
Proof. destruct r; discriminate. Qed.

(* one turn of the loop, for a callback that did not return normally *)
Lemma run_callbacks_cons_not_ok fuel codes e c t s s1 r :
  run_cb fuel codes e c s = (s1, r) -> r <> ROk ->
  run_callbacks fuel codes e (c :: t) s =
  if is_stop_cb c && is_exit r
  then let '(s2, r2) := run_callbacks fuel codes e t s1 in match r2 with ROk => (s2, r) | _ => (s2, r2) end
  else (s1, r).
Proof. intros R N. cbn [run_callbacks]. rewrite R. destruct r; [contradiction| | | | |]; reflexivity. Qed.

(* either all of l was invoked (and the loop ends normally or with the remembered stop), or a prefix, the next callback
   letting something escape (the rest is dropped) *)
Lemma run_callbacks_spec fuel codes e : forall l s s' r,
  run_callbacks fuel codes e l s = (s', r) ->
  (cb_chain fuel codes e l s s' /\ (r = ROk \/ is_exit r = true)) \/
  (exists pre c post smid, l = pre ++ c :: post /\ cb_chain fuel codes e pre s smid /\
                           run_cb fuel codes e c smid = (s', r) /\ ~ cb_ok c r).
Proof.
  induction l as [|c t IH]; intros s s' r.
  - cbn [run_callbacks]. intros H; injection H as <- <-. left. split; [constructor|left; reflexivity].
  - destruct (run_cb fuel codes e c s) as [s1 r1] eqn:R. destruct (not_ok_cases r1) as [->|N].
    + cbn [run_callbacks]. rewrite R. intros H.
      destruct (IH _ _ _ H) as [[Ch Rr]|(pre & c' & post & smid & -> & Ch & R' & NK)].
      * left. split; [econstructor; [exact R|left; reflexivity|exact Ch]|exact Rr].
      * right. exists (c :: pre), c', post, smid. split; [reflexivity|].
        split; [econstructor; [exact R|left; reflexivity|exact Ch]|]. auto.
    + rewrite (run_callbacks_cons_not_ok _ _ _ _ t _ _ _ R N).
      destruct (is_stop_cb c && is_exit r1) eqn:SE.
      * apply andb_true_iff in SE. destruct SE as [Sc Ex].
        destruct (run_callbacks fuel codes e t s1) as [s2 r2] eqn:R2.
        destruct (IH _ _ _ R2) as [[Ch Rr]|(pre & c' & post & smid & -> & Ch & R' & NK)].
        -- destruct (not_ok_cases r2) as [->|N2].
           ++ intros H; injection H as <- <-. left.
              split; [econstructor; [exact R|right; auto|exact Ch]|right; exact Ex].
           ++ rewrite (match_not_ok r2 _ _ N2). intros H; injection H as <- <-. left.
              split; [econstructor; [exact R|right; auto|exact Ch]|]. destruct Rr as [->|Rr]; [contradiction|right; exact Rr].
        -- assert (N2 : r2 <> ROk) by (intros ->; apply NK; left; reflexivity).
           rewrite (match_not_ok r2 _ _ N2). intros H; injection H as <- <-. right.
           exists (c :: pre), c', post, smid. split; [reflexivity|].
           split; [econstructor; [exact R|right; auto|exact Ch]|]. auto.
      * intros H; injection H as <- <-. right. exists [], c, t, s. split; [reflexivity|]. split; [constructor|].
        split; [exact R|]. intros [->|[Sc Ex]]; [contradiction|]. rewrite Sc, Ex in SE. discriminate.
Qed.

(* a loop that ran through: run_callbacks returns its end state; without a stop callback it returns normally *)
Lemma cb_chain_run fuel codes e : forall l s s', cb_chain fuel codes e l s s' ->
  exists r, run_callbacks fuel codes e l s = (s', r) /\ (r = ROk \/ is_exit r = true) /\
            ((forall c, In c l -> is_stop_cb c = false) -> r = ROk).
Proof.
  induction 1 as [s|c t s s1 r0 s' R K _ (r & IH & Rr & Ns)].
  - exists ROk. cbn. auto.
  - destruct K as [->|[Sc Ex]].
    + exists r. cbn [run_callbacks]. rewrite R. split; [exact IH|]. split; [exact Rr|].
      intros H. apply Ns. intros c' Hc'. apply H. right. exact Hc'.
    + rewrite (run_callbacks_cons_not_ok _ _ _ _ t _ _ _ R (is_exit_not_ok _ Ex)), Sc, Ex, IH. cbn [andb].
      destruct (not_ok_cases r) as [->|N].
      * exists r0. split; [reflexivity|]. split; [right; exact Ex|]. intros H. specialize (H c (or_introl eq_refl)). congruence.
      * exists r. rewrite (match_not_ok r _ _ N). split; [reflexivity|]. split; [exact Rr|].
        intros H. specialize (H c (or_introl eq_refl)). congruence.
Qed.

(* the state in which the callback loop of the step that pops m starts *)
Definition loop_start (m : entry) (rest : list entry) (s : state) : state :=
  upd_event (e_ev m) (ev_set_cbs None) (pop_state m rest s).

Lemma get_event_pop_state m rest s x : get_event x (pop_state m rest s) = get_event x s.
Proof. reflexivity. Qed.

Lemma loop_start_processed m rest s ev :
  get_event (e_ev m) s = Some ev -> get_event (e_ev m) (loop_start m rest s) = Some (ev_set_cbs None ev).
Proof. intros H. unfold loop_start. apply get_upd_event_same. exact H. Qed.

(* callbacks_exactly_once, the step: the list taken from the event at the start is invoked in order, each once;
   the event is processed (cbs = None) from the start of the loop on *)
Lemma step_invokes fuel codes s s' r m rest ev l :
  step fuel codes s = (s', r) -> pop_min (agenda s) = Some (m, rest) ->
  get_event (e_ev m) s = Some ev -> cbs ev = Some l ->
  (cb_chain fuel codes (e_ev m) l (loop_start m rest s) s' /\
   (r = check_failure (e_ev m) s' \/ is_exit r = true) /\
   ((forall c, In c l -> is_stop_cb c = false) -> r = check_failure (e_ev m) s')) \/
  (exists pre c post smid, l = pre ++ c :: post /\ cb_chain fuel codes (e_ev m) pre (loop_start m rest s) smid /\
                           run_cb fuel codes (e_ev m) c smid = (s', r) /\ ~ cb_ok c r).
Proof.
  intros St P H C. unfold step in St. rewrite P in St. rewrite get_event_pop_state, H, C in St.
  fold (loop_start m rest s) in St.
  destruct (run_callbacks fuel codes (e_ev m) l (loop_start m rest s)) as [s2 r2] eqn:R.
  destruct (run_callbacks_spec _ _ _ _ _ _ _ R) as [[Ch Rr]|(pre & c & post & smid & -> & Ch & R' & N)].
  - left. destruct (cb_chain_run _ _ _ _ _ _ Ch) as (r3 & R3 & _ & Ns). rewrite R in R3. injection R3 as <-.
    destruct (not_ok_cases r2) as [->|N2].
    + injection St as <- <-. split; [exact Ch|]. split; [left; reflexivity|reflexivity].
    + rewrite (match_not_ok r2 _ _ N2) in St. injection St as <- <-. split; [exact Ch|].
      split; [destruct Rr as [->|Rr]; [contradiction|right; exact Rr]|]. intros H0. contradiction (N2 (Ns H0)).
  - right. exists pre, c, post, smid. assert (N2 : r2 <> ROk) by (intros ->; apply N; left; reflexivity).
    rewrite (match_not_ok r2 _ _ N2) in St. injection St as <- <-. auto.
Qed.

(* when the loop ran through, step() leaves the state the loop left *)
Lemma step_fst_chain fuel codes s m rest ev l s' :
  pop_min (agenda s) = Some (m, rest) -> get_event (e_ev m) s = Some ev -> cbs ev = Some l ->
  cb_chain fuel codes (e_ev m) l (loop_start m rest s) s' -> fst (step fuel codes s) = s'.
Proof.
  intros P G C Ch. destruct (cb_chain_run _ _ _ _ _ _ Ch) as (r & R & _).
  unfold step. rewrite P, get_event_pop_state, G, C. fold (loop_start m rest s). rewrite R. destruct r; reflexivity.
Qed.

(* an event that is popped although it is already processed (it was scheduled twice): TypeError before any callback *)
Lemma step_processed_twice fuel codes s m rest ev :
  pop_min (agenda s) = Some (m, rest) -> get_event (e_ev m) s = Some ev -> cbs ev = None ->
  step fuel codes s = (pop_state m rest s, RRaise (kexn EType M_none_not_iterable)).
Proof. intros P H C. unfold step. rewrite P, get_event_pop_state, H, C. reflexivity. Qed.

Lemma step_empty fuel codes s : pop_min (agenda s) = None -> step fuel codes s = (s, REmpty).
Proof. intros P. unfold step. now rewrite P. Qed.

(* failure_never_lost, the step: after the loop an undefused failure is what step() raises *)
Lemma check_failure_raise e s ev x :
  get_event e s = Some ev -> out ev = Some (Fail x) -> defused ev = false -> check_failure e s = RRaise x.
Proof. intros H O D. unfold check_failure. now rewrite H, O, D. Qed.

Lemma check_failure_cases e s ev :
  get_event e s = Some ev -> out ev <> None ->
  (check_failure e s = ROk /\ (exists v, out ev = Some (Ok v)) \/ (exists x, out ev = Some (Fail x) /\ defused ev = true)) \/
  (exists x, check_failure e s = RRaise x /\ out ev = Some (Fail x) /\ defused ev = false).
Proof.
  intros H O. unfold check_failure. rewrite H. destruct (out ev) as [[v|x]|]; [| |contradiction].
  - left. left. split; [reflexivity|eauto].
  - destruct (defused ev) eqn:D.
    + left. right. eauto.
    + right. eauto.
Qed.

(* ------------------------------------------------------------------------------------------------ *)
(* Environment.run: the loop returns the first thing a step raises, in the state that step left *)

Inductive ok_steps (fuel : nat) (codes : list prog) : state -> state -> Prop :=
| oks_refl s : ok_steps fuel codes s s
| oks_step s s1 s' : step fuel codes s = (s1, ROk) -> ok_steps fuel codes s1 s' -> ok_steps fuel codes s s'.

Lemma run_loop_spec fuel codes u : forall n s s' r,
  run_loop n fuel codes u s = (s', r) ->
  (r = RFuel /\ ok_steps fuel codes s s') \/
  (exists sk rk, ok_steps fuel codes s sk /\ step fuel codes sk = (s', rk) /\ rk <> ROk /\
                 r = match rk with REmpty => run_empty u s' | _ => rk end).
Proof.
  induction n as [|n IH]; intros s s' r; cbn [run_loop].
  - intros H; injection H as <- <-. left. split; [reflexivity|constructor].
  - destruct (step fuel codes s) as [s1 r1] eqn:St.
    destruct r1; try (intros H; injection H as <- <-; right; exists s; eexists; split; [constructor|split; [exact St|split; [discriminate|reflexivity]]]).
    intros H. destruct (IH _ _ _ H) as [[-> Ch]|(sk & rk & Ch & St' & N & E)].
    + left. split; [reflexivity|econstructor; eauto].
    + right. exists sk, rk. split; [econstructor; eauto|auto].
Qed.

Lemma run_loop_propagates fuel codes u n s s1 x :
  step fuel codes s = (s1, RRaise x) -> run_loop (S n) fuel codes u s = (s1, RRaise x).
Proof. intros H. cbn [run_loop]. now rewrite H. Qed.

Lemma run_loop_ok_steps fuel codes u : forall s sk, ok_steps fuel codes s sk ->
  forall s' x, step fuel codes sk = (s', RRaise x) ->
  exists k, forall n, k <= n -> run_loop n fuel codes u s = (s', RRaise x).
Proof.
  induction 1 as [s|s s1 sk St _ IH]; intros s' x H.
  - exists 1. intros [|n] L; [lia|]. apply run_loop_propagates, H.
  - destruct (IH _ _ H) as (k & Hk). exists (S k). intros [|n] L; [lia|]. cbn [run_loop]. rewrite St. apply Hk. lia.
Qed.

(* ------------------------------------------------------------------------------------------------ *)
(* Process._resume *)

(* the state in which the automaton runs: a failure is marked defused BEFORE it is thrown into the process *)
Definition feed_state (e : evid) (o : outcome) (s : state) : state :=
  match o with Fail _ => upd_event e ev_set_defused s | Ok _ => s end.

(* what _resume does with what the generator did (returned / raised / yielded) *)
Definition after_frag (f : nat) (codes : list prog) (p : pid) (pr : procrec) (x : state * fres (St (pcode pr)))
  : state * result :=
  let '(s2, r) := x in
  match r with
  | FrRet v => (proc_finish p pr (Ok v) s2, ROk)
  | FrRaise x => (proc_finish p pr (Fail x) s2, ROk)
  | FrYield v a =>
      let s3 := put_proc p (proc_set_st pr a) s2 in
      match v with
      | VEv e' =>
          match get_event e' s3 with
          | Some ev' => if is_processed ev' then resume_loop f codes p e' s3 else (proc_wait p e' s3, ROk)
          | None => (s3, RRaise (kexn ERuntime M_invalid_yield))
          end
      | _ => (s3, RRaise (kexn ERuntime M_invalid_yield))
      end
  end.

(* resume_gets_outcome: one turn of the loop feeds the automaton exactly the outcome of the event: Ok v with the
   event's value, or Fail x with the event's exception (class and args), the event being marked defused first *)
Lemma resume_loop_eq f codes p e s ev pr o :
  get_event e s = Some ev -> get_proc p s = Some pr -> out ev = Some o ->
  resume_loop (S f) codes p e s =
  after_frag f codes p pr (run_frag codes (resume (pcode pr) (pst pr) o) (feed_state e o s)).
Proof.
  intros H P O. cbn [resume_loop]. rewrite H, P, O. unfold after_frag, feed_state.
  destruct (run_frag codes (resume (pcode pr) (pst pr) o) match o with Ok _ => s | Fail _ => upd_event e ev_set_defused s end) as [s2 r].
  reflexivity.
Qed.

Lemma feed_state_defused e x s ev :
  get_event e s = Some ev -> exists ev', get_event e (feed_state e (Fail x) s) = Some ev' /\ defused ev' = true /\ out ev' = out ev.
Proof. intros H. exists (ev_set_defused ev). cbn [feed_state]. rewrite (get_upd_event_same _ _ _ _ H). auto. Qed.

Lemma resume_proc_eq f codes p e s ev pr o :
  get_event e s = Some ev -> get_proc p s = Some pr -> out ev = Some o ->
  resume_proc (S f) codes p e s =
  after_frag f codes p pr (run_frag codes (resume (pcode pr) (pst pr) o) (feed_state e o (set_active (Some p) s))).
Proof. intros H P O. unfold resume_proc. eapply resume_loop_eq; eauto. Qed.

(* process_event_outcome *)
Lemma proc_finish_spec p pr o s pe pr0 :
  get_event (pev pr) s = Some pe -> get_proc p s = Some pr0 ->
  let s' := proc_finish p pr o s in
  get_event (pev pr) s' = Some (ev_set_out (Some o) pe) /\
  agenda s' = agenda s ++ [mkEntry (Qred (now s + 0)%Q) NORMAL (next_eid s) (pev pr)] /\
  get_proc p s' = Some (proc_set_target None pr0) /\ active s' = None /\ now s' = now s /\
  (forall x, x <> pev pr -> get_event x s' = get_event x s) /\
  (forall q, q <> p -> get_proc q s' = get_proc q s).
Proof.
  intros H P. cbn zeta. destruct (trigger_event_spec _ o _ _ H) as (A & B & C & D & E & F).
  unfold proc_finish. cbn [set_active active now agenda].
  split; [exact A|]. split; [exact B|]. split.
  - change (get_proc p (upd_proc p (proc_set_target None) (trigger_event (pev pr) o s)) = Some (proc_set_target None pr0)).
    rewrite get_proc_upd, Nat.eqb_refl. unfold get_proc in *. rewrite E, P. reflexivity.
  - split; [reflexivity|]. split; [exact D|]. split; [exact F|].
    intros q Hq. change (get_proc q (upd_proc p (proc_set_target None) (trigger_event (pev pr) o s)) = get_proc q s).
    rewrite get_proc_upd. apply Nat.eqb_neq in Hq. rewrite Hq. unfold get_proc. now rewrite E.
Qed.

Lemma resume_returns f codes p e s ev pr o s2 v :
  get_event e s = Some ev -> get_proc p s = Some pr -> out ev = Some o ->
  run_frag codes (resume (pcode pr) (pst pr) o) (feed_state e o s) = (s2, FrRet v) ->
  resume_loop (S f) codes p e s = (proc_finish p pr (Ok v) s2, ROk).
Proof. intros H P O R. rewrite (resume_loop_eq _ _ _ _ _ _ _ _ H P O), R. reflexivity. Qed.

Lemma resume_raises f codes p e s ev pr o s2 x :
  get_event e s = Some ev -> get_proc p s = Some pr -> out ev = Some o ->
  run_frag codes (resume (pcode pr) (pst pr) o) (feed_state e o s) = (s2, FrRaise x) ->
  resume_loop (S f) codes p e s = (proc_finish p pr (Fail x) s2, ROk).
Proof. intros H P O R. rewrite (resume_loop_eq _ _ _ _ _ _ _ _ H P O), R. reflexivity. Qed.

(* yield_processed_continues: a yielded event that is already processed is fed at once, in the same _resume call *)
Lemma resume_yield_processed f codes p e s ev pr o s2 e' a ev' :
  get_event e s = Some ev -> get_proc p s = Some pr -> out ev = Some o ->
  run_frag codes (resume (pcode pr) (pst pr) o) (feed_state e o s) = (s2, FrYield (VEv e') a) ->
  get_event e' (put_proc p (proc_set_st pr a) s2) = Some ev' -> cbs ev' = None ->
  resume_loop (S f) codes p e s = resume_loop f codes p e' (put_proc p (proc_set_st pr a) s2).
Proof.
  intros H P O R H' C. rewrite (resume_loop_eq _ _ _ _ _ _ _ _ H P O), R. cbn. rewrite H'. unfold is_processed. now rewrite C.
Qed.

Lemma resume_yield_pending f codes p e s ev pr o s2 e' a ev' l :
  get_event e s = Some ev -> get_proc p s = Some pr -> out ev = Some o ->
  run_frag codes (resume (pcode pr) (pst pr) o) (feed_state e o s) = (s2, FrYield (VEv e') a) ->
  get_event e' (put_proc p (proc_set_st pr a) s2) = Some ev' -> cbs ev' = Some l ->
  resume_loop (S f) codes p e s = (proc_wait p e' (put_proc p (proc_set_st pr a) s2), ROk).
Proof.
  intros H P O R H' C. rewrite (resume_loop_eq _ _ _ _ _ _ _ _ H P O), R. cbn. rewrite H'. unfold is_processed. now rewrite C.
Qed.
