(* Bridging lemmas (DESIGN 2.6, second tie) for the LOOPS of Condition: __init__ (the part before its subscription loop, ONE
   iteration of that loop and what follows it), _populate_value and _remove_check_callbacks (ONE iteration each), as
   translated from the tree under test on every run (Gen/Extracted_condloops.v; state record = the position k in
   self._events), are RUN here on a concrete operand list and shown to be [call_cond] / [cond_subscribe], [populate_ops]
   and [remove_ops] of the hand-written kernel model (Kernel/Model.v), with fuel 1 + number of operands.  The recursion
   into a nested condition is an effect whose meaning is the recursive call of the model ([rec]). *)
From Coq Require Import ZArith QArith List Bool Lia.
From ONL Require Import Kernel.Model Gen.Extracted_condloops.
Import ListNotations.

Lemma nth_pre {A} (pre rest : list A) x : nth_error (pre ++ x :: rest) (length pre) = Some x.
Proof. rewrite nth_error_app2 by lia. rewrite Nat.sub_diag. reflexivity. Qed.
Lemma nth_end {A} (pre : list A) : nth_error pre (length pre) = None.
Proof. apply nth_error_None. lia. Qed.
Lemma len_snoc {A} (pre : list A) x : (Z.of_nat (length pre) + 1)%Z = Z.of_nat (length (pre ++ [x])).
Proof. rewrite app_length. cbn. lia. Qed.
Lemma snoc_app {A} (pre rest : list A) x : pre ++ x :: rest = (pre ++ [x]) ++ rest.
Proof. rewrite <- app_assoc. reflexivity. Qed.

(* ---- Condition.__init__: the subscription loop -------------------------------------------------------------------- *)
Definition sub_fx (c o : evid) (s : state) (e : cloop_fx) : option state :=
  match e with
  | FxCheckOperand => Some (cond_check c o s)                                   (* self._check(event) *)
  | FxSubscribe => Some (match get_event o s with Some _ => add_callback o (CbCheck c) s | None => s end)
  | _ => None
  end.

Fixpoint run_subscribe (fuel : nat) (c : evid) (ops : list evid) (s : state) (r : cloop_st) : option state :=
  match fuel with
  | O => None
  | S fu =>
      let k := Z.to_nat (o_k r) in
      let o := nth k ops 0%nat in
      let processed := match nth_error ops k with
                       | Some o' => match get_event o' s with Some oev => is_processed oev | None => false end
                       | None => false
                       end in
      let '(r', fx) := gen_Condition_init_loop r (Z.of_nat (length ops)) processed false false in
      match fx with
      | [e; FxLoopAgain] => match sub_fx c o s e with Some s' => run_subscribe fu c ops s' r' | None => None end
      | [FxAssertCallbacks; FxAppendBuild] => Some (add_callback c (CbBuild c) s)       (* after the loop *)
      | _ => None
      end
  end.

Lemma run_subscribe_spec c rest : forall pre s,
  run_subscribe (S (length rest)) c (pre ++ rest) s {| o_k := Z.of_nat (length pre) |} =
  Some (add_callback c (CbBuild c) (cond_subscribe c rest s)).
Proof.
  induction rest as [|o t IH]; intros pre s.
  - cbn [run_subscribe length o_k cond_subscribe]. rewrite Nat2Z.id, app_nil_r, nth_end.
    unfold gen_Condition_init_loop. cbn [o_k].
    destruct (Z.ltb_spec (Z.of_nat (length pre)) (Z.of_nat (length pre))); [lia|reflexivity].
  - cbn [run_subscribe o_k cond_subscribe]. rewrite Nat2Z.id, nth_pre.
    replace (nth (length pre) (pre ++ o :: t) 0%nat) with o by (rewrite app_nth2, Nat.sub_diag by lia; reflexivity).
    unfold gen_Condition_init_loop. cbn [o_k]. rewrite app_length. cbn [length].
    destruct (Z.ltb_spec (Z.of_nat (length pre)) (Z.of_nat (length pre + S (length t)))); [|lia].
    rewrite len_snoc with (x := o), (snoc_app pre t o).
    destruct (get_event o s) as [oev|] eqn:EG.
    + destruct (is_processed oev); cbn [app sub_fx]; rewrite ?EG; apply IH.
    + cbn [app sub_fx]. rewrite EG. apply IH.
Qed.

(* the whole constructor: before the loop, the loop from k = 0, after the loop *)
Definition cond_init_fx (all : bool) (es : list evid) (s : state) (before : list cloop_fx) : option (state * outcome) :=
  let '(c, s1) := new_event (mkEvent (Some []) None false (KCond all es 0)) s in
  match before with
  | [FxEventInit; FxSetEvaluate; FxSetEvents; FxCountZero; FxSucceedEmpty] =>
      Some (trigger_event c (Ok (VCond [])) s1, Ok (VEv c))                       (* no operands: succeeds at once *)
  | [FxEventInit; FxSetEvaluate; FxSetEvents; FxCountZero; FxCheckSameEnv] =>      (* one environment: the check passes *)
      match run_subscribe (S (length es)) c es s1 {| o_k := 0 |} with
      | Some s2 => Some (s2, Ok (VEv c))
      | None => None
      end
  | _ => None
  end.

Lemma bridge_cond_init all es s :
  all_valid es s = true ->
  cond_init_fx all es s (snd (gen_Condition_init_before {| o_k := 0 |} (Z.of_nat (length es)) false false false)) =
  Some (call_cond all es s).
Proof.
  intros Hv. unfold call_cond, cond_init_fx, gen_Condition_init_before. rewrite Hv. cbn [negb].
  destruct (new_event (mkEvent (Some []) None false (KCond all es 0)) s) as [c s1].
  destruct es as [|o t]; [reflexivity|].
  replace (Z.of_nat (length (o :: t)) =? 0)%Z with false by (symmetry; apply Z.eqb_neq; cbn [length]; lia).
  cbn [negb snd].
  pose proof (run_subscribe_spec c (o :: t) [] s1) as H. change (Z.of_nat (length (@nil evid))) with 0%Z in H.
  cbn [app] in H. rewrite H. reflexivity.
Qed.

(* ---- Condition._populate_value --------------------------------------------------------------------------------------- *)
Section Populate.
  Variable rec : list evid -> option (list (evid * val)).      (* event._populate_value(value) of a nested condition *)
  Variable evs : list event.

  Fixpoint run_populate (fuel : nat) (ops : list evid) (acc : list (evid * val)) (r : cloop_st) : option (list (evid * val)) :=
    match fuel with
    | O => None
    | S fu =>
        let k := Z.to_nat (o_k r) in
        match nth_error ops k with
        | None => match snd (gen_Condition_populate_iter r (Z.of_nat (length ops)) false false false) with
                  | [] => Some acc
                  | _ => None
                  end
        | Some o =>
            match nth_error evs o with
            | None => None                                                       (* not an event *)
            | Some oev =>
                let '(r', fx) := gen_Condition_populate_iter r (Z.of_nat (length ops)) (is_processed oev) (is_cond oev) false in
                match fx with
                | [FxPopulateNested; FxLoopAgain] =>
                    match kind oev with
                    | KCond _ ops' _ => match rec ops' with Some inner => run_populate fu ops (acc ++ inner) r' | None => None end
                    | _ => None
                    end
                | [FxAppendLeaf; FxLoopAgain] =>
                    match raw_value oev with Some v => run_populate fu ops (acc ++ [(o, v)]) r' | None => None end
                | [FxLoopAgain] => run_populate fu ops acc r'
                | _ => None
                end
            end
        end
    end.

  Lemma run_populate_spec rest : forall pre acc,
    run_populate (S (length rest)) (pre ++ rest) acc {| o_k := Z.of_nat (length pre) |} =
    match populate_ops rec evs rest with Some l => Some (acc ++ l) | None => None end.
  Proof.
    induction rest as [|o t IH]; intros pre acc.
    - cbn [run_populate length o_k populate_ops]. rewrite Nat2Z.id, !app_nil_r, nth_end.
      unfold gen_Condition_populate_iter. cbn [o_k].
      destruct (Z.ltb_spec (Z.of_nat (length pre)) (Z.of_nat (length pre))); [lia|reflexivity].
    - cbn [run_populate o_k populate_ops]. rewrite Nat2Z.id, nth_pre.
      destruct (nth_error evs o) as [oev|]; [|reflexivity].
      unfold gen_Condition_populate_iter. cbn [o_k]. rewrite app_length. cbn [length].
      destruct (Z.ltb_spec (Z.of_nat (length pre)) (Z.of_nat (length pre + S (length t)))); [|lia].
      rewrite len_snoc with (x := o), (snoc_app pre t o).
      unfold is_cond, is_processed. destruct (kind oev) eqn:EK; cbn [app];
        try (destruct (cbs oev) as [l|];
             [rewrite IH; reflexivity
             |destruct (raw_value oev) as [v|]; [rewrite IH; destruct (populate_ops rec evs t); [rewrite <- app_assoc|]; reflexivity
                                               |reflexivity]]).
      destruct (rec ops) as [inner|]; [|reflexivity].
      rewrite IH. destruct (populate_ops rec evs t); [rewrite <- app_assoc|]; reflexivity.
  Qed.

  Lemma bridge_populate ops :
    run_populate (S (length ops)) ops [] {| o_k := 0 |} = populate_ops rec evs ops.
  Proof.
    pose proof (run_populate_spec ops [] []) as H. change (Z.of_nat (length (@nil evid))) with 0%Z in H. cbn [app] in H. rewrite H.
    destruct (populate_ops rec evs ops); reflexivity.
  Qed.
End Populate.

(* ---- Condition._remove_check_callbacks -------------------------------------------------------------------------------- *)
Section Remove.
  Variable rec : evid -> state -> option state.                (* event._remove_check_callbacks() of a nested condition *)
  Variable c : evid.

  Definition registered (oev : event) : bool :=                (* event.callbacks and self._check in event.callbacks *)
    match cbs oev with Some l => mem_cb (CbCheck c) l | None => false end.

  Fixpoint apply_remove (o : evid) (s : state) (fx : list cloop_fx) : option (option state) :=   (* None = bad sequence *)
    match fx with
    | [] => Some (Some s)
    | FxRemoveCheck :: t =>
        match get_event o s with
        | Some oev => match cbs oev with
                      | Some l => apply_remove o (upd_event o (ev_set_cbs (Some (remove_first (CbCheck c) l))) s) t
                      | None => None
                      end
        | None => None
        end
    | FxRemoveNested :: t => match rec o s with Some s' => apply_remove o s' t | None => Some None end
    | _ => None
    end.

  Fixpoint run_remove (fuel : nat) (ops : list evid) (s : state) (r : cloop_st) : option state :=
    match fuel with
    | O => None
    | S fu =>
        let k := Z.to_nat (o_k r) in
        match nth_error ops k with
        | None => match snd (gen_Condition_remove_iter r (Z.of_nat (length ops)) false false false) with
                  | [] => Some s
                  | _ => None
                  end
        | Some o =>
            match get_event o s with
            | None => None
            | Some oev =>
                let '(r', fx) := gen_Condition_remove_iter r (Z.of_nat (length ops)) false (is_cond oev) (registered oev) in
                match rev fx with
                | FxLoopAgain :: body =>
                    match apply_remove o s (rev body) with
                    | Some (Some s') => run_remove fu ops s' r'
                    | _ => None
                    end
                | _ => None
                end
            end
        end
    end.

  Lemma run_remove_spec rest : forall pre s,
    run_remove (S (length rest)) (pre ++ rest) s {| o_k := Z.of_nat (length pre) |} = remove_ops rec c rest s.
  Proof.
    induction rest as [|o t IH]; intros pre s.
    - cbn [run_remove length o_k remove_ops]. rewrite Nat2Z.id, app_nil_r, nth_end.
      unfold gen_Condition_remove_iter. cbn [o_k].
      destruct (Z.ltb_spec (Z.of_nat (length pre)) (Z.of_nat (length pre))); [lia|reflexivity].
    - cbn [run_remove o_k remove_ops]. rewrite Nat2Z.id, nth_pre.
      destruct (get_event o s) as [oev|] eqn:EG; [|reflexivity].
      unfold gen_Condition_remove_iter. cbn [o_k]. rewrite app_length. cbn [length].
      destruct (Z.ltb_spec (Z.of_nat (length pre)) (Z.of_nat (length pre + S (length t)))); [|lia].
      rewrite len_snoc with (x := o), (snoc_app pre t o).
      unfold remove_check_from, registered. rewrite EG.
      destruct (cbs oev) as [l|] eqn:EC; [destruct (mem_cb (CbCheck c) l) eqn:EM|];
        destruct (is_cond oev); cbn [app rev apply_remove]; rewrite ?EG, ?EC;
        try (destruct (rec o _) as [s2|]; [apply IH|reflexivity]); apply IH.
  Qed.

  Lemma bridge_remove ops s :
    run_remove (S (length ops)) ops s {| o_k := 0 |} = remove_ops rec c ops s.
  Proof. exact (run_remove_spec ops [] s). Qed.
End Remove.

(* ---- non-vacuity witness for the constructor: two pending events, all_of([e0, e1]) ------------------------------------ *)
Definition ex_cond_state : state := fst (call_event (fst (call_event (init_state 0)))).

Lemma ex_cond_init :
  all_valid [0%nat; 1%nat] ex_cond_state = true /\
  cond_init_fx true [0%nat; 1%nat] ex_cond_state
    (snd (gen_Condition_init_before {| o_k := 0 |} (Z.of_nat (length [0%nat; 1%nat])) false false false)) =
  Some (call_cond true [0%nat; 1%nat] ex_cond_state) /\
  (* the condition is event 2; both operands carry its _check, it carries _build_value and is not triggered *)
  option_map cbs (get_event 0%nat (fst (call_cond true [0%nat; 1%nat] ex_cond_state))) = Some (Some [CbCheck 2%nat]) /\
  option_map cbs (get_event 2%nat (fst (call_cond true [0%nat; 1%nat] ex_cond_state))) = Some (Some [CbBuild 2%nat]) /\
  option_map out (get_event 2%nat (fst (call_cond true [0%nat; 1%nat] ex_cond_state))) = Some None.
Proof.
  split; [reflexivity|]. split; [apply bridge_cond_init; reflexivity|]. repeat split; vm_compute; reflexivity.
Qed.
