(* Kernel/Stop.v -- C03, definitions: stop points, split runs, the free-running kernel, and the witness that refutes
   split transparency for the kernel as found (StopSimulation raised from inside the callback loop).

     stop                       a stop point: run() | run(until=t) | run(until=event) | n times step()
     run_stop_sel fx            what one stop point does ([fx] = true: the repaired kernel of Kernel/Model.v)
     run_split_sel fx           a plan of stop points, one after the other; what an item returns or raises is the caller's
                                business (the harness records it and goes on with the next item), the kernel state carries on
     free_run k                 k times step(), whatever the steps answer: the uninterrupted execution (a run() that ends with
                                an escaped failure is resumed by the next run(): [run_loop_free])
     logs                       the user-visible part of the trace: the OLog / OProbe records, in order  *)
From Coq Require Import ZArith QArith List Bool Lia.
From ONL Require Import Kernel.Model Kernel.Script.
Import ListNotations.

Inductive stop := SRun | SNum (t : Q) | SEv (e : evid) | SStep (n : nat).

Fixpoint nsteps_sel (fx : bool) (n fuel : nat) (codes : list prog) (s : state) : state * result :=
  match n with
  | O => (s, ROk)
  | S m => let '(s1, r) := step_sel fx fuel codes s in
           match r with ROk => nsteps_sel fx m fuel codes s1 | _ => (s1, r) end
  end.

Definition run_stop_sel (fx : bool) (fuel : nat) (codes : list prog) (st : stop) (s : state) : state * result :=
  match st with
  | SRun => run_sel fx fuel codes UNone s
  | SNum t => run_sel fx fuel codes (UNum t) s
  | SEv e => run_sel fx fuel codes (UEv e) s
  | SStep n => nsteps_sel fx n fuel codes s
  end.

Fixpoint run_split_sel (fx : bool) (fuel : nat) (codes : list prog) (plan : list stop) (s : state) : state * list result :=
  match plan with
  | [] => (s, [])
  | st :: t => let '(s1, r) := run_stop_sel fx fuel codes st s in
               let '(s2, rs) := run_split_sel fx fuel codes t s1 in (s2, r :: rs)
  end.

Definition run_stop := run_stop_sel true.
Definition run_split := run_split_sel true.
Definition nsteps := nsteps_sel true.

Fixpoint free_run_sel (fx : bool) (k fuel : nat) (codes : list prog) (s : state) : state :=
  match k with
  | O => s
  | S m => free_run_sel fx m fuel codes (fst (step_sel fx fuel codes s))
  end.
Definition free_run := free_run_sel true.

Definition is_user_obs (o : observation) : bool := match o with OStep _ _ => false | _ => true end.
Definition logs (s : state) : list observation := filter is_user_obs (rev (obs s)).

(* ------------------------------------------------------------------------------------------------ *)
(* determinism: [run], [step], [run_split] are Coq functions of the program and the state -- the model has no hash, no
   object address and no clock.  Stated for the record; that the IMPLEMENTATION is a function of the program is checked by
   the correspondence under several PYTHONHASHSEED values in fresh interpreter processes (props/c03.py, extra_checks). *)
Lemma run_deterministic fuel codes u s x y : run fuel codes u s = x -> run fuel codes u s = y -> x = y.
Proof. intros <- <-. reflexivity. Qed.

Lemma run_split_deterministic fuel codes plan s x y : run_split fuel codes plan s = x -> run_split fuel codes plan s = y -> x = y.
Proof. intros <- <-. reflexivity. Qed.

(* ------------------------------------------------------------------------------------------------ *)
(* the witness (corpus/C03/until-event-loses-late-waiter.json): process 1 yields the until-event G0 at t = 1, after
   run(until=G0) has appended the stop callback; G0 is triggered at t = 2 *)
Definition wit_code0 : list instr :=
  [ITimeout (L 1) 2 XNone; IYield 1 (XReg (L 1)) (L 2) YCatch; ISucceed (G 0) (XInt 5)].
Definition wit_code1 : list instr :=
  [ITimeout (L 1) 1 XNone; IYield 2 (XReg (L 1)) (L 2) YCatch; IYield 3 (XReg (G 0)) (L 3) YCatch; ILog (XReg (L 3));
   ITimeout (L 4) 1 XNone; IYield 4 (XReg (L 4)) (L 5) YCatch; ILog (XInt 99)].
Definition wit_setup : list instr :=
  [IEvent (G 0); IProbe (G 0) 1; ISpawn (G 1) 0 XNone; ISpawn (G 2) 1 XNone].
Definition wit_codes : list prog := map compile [wit_code0; wit_code1].
Definition wit_s0 : state := fst (exec_top wit_codes (exec wit_setup []) (init_state 0)).
Definition wit_plan : list stop := [SEv 0%nat; SRun].

(* split_refuted_before_fix: with the kernel as found, the split run [run(until=G0); run()] and the uninterrupted run() both
   return normally and leave an empty agenda, but the split run has lost process 1 for good: its visible trace is shorter *)
Theorem split_refuted_before_fix :
  exists fuel codes s0 plan,
    let S := fst (run_split_sel false fuel codes plan s0) in
    let U := run_sel false fuel codes UNone s0 in
    snd U = ROk /\ agenda (fst U) = [] /\ agenda S = [] /\
    snd (run_split_sel false fuel codes plan s0) = [RStop (VInt 5); ROk] /\
    logs S <> logs (fst U) /\ (length (logs S) < length (logs (fst U)))%nat.
Proof.
  exists 100%nat, wit_codes, wit_s0, wit_plan. vm_compute.
  repeat split; try reflexivity; try lia. intros H. discriminate H.
Qed.

(* the same witness on the repaired kernel: nothing is lost *)
Example wit_repaired :
  let S := fst (run_split 100 wit_codes wit_plan wit_s0) in
  let U := run 100 wit_codes UNone wit_s0 in
  snd U = ROk /\ agenda (fst U) = [] /\ agenda S = [] /\
  snd (run_split 100 wit_codes wit_plan wit_s0) = [RStop (VInt 5); ROk] /\ logs S = logs (fst U).
Proof. vm_compute. repeat split; reflexivity. Qed.
