"""Fail-closed translator of straight-line Python methods to Gallina (DESIGN.md 2.6, second tie).

translate_method(path, cls, method, fields, prefix, record, params) reads the CURRENT source file,
finds `class cls: def method(self, ...)` and emits

    Definition <name> (s : <record>) (<params> : Q) : <record> := ...

where every `self.<attr>` with attr in `fields` is the record field `<prefix><attr>` (all numbers are
Q; Python ints and floats are converted exactly), local variables become `let`s, `if/elif/else`
becomes `if`, and `return` ends the method (methods are translated as state transformers; a returned
value is ignored unless want_result=True, in which case the definition returns (state * Q)).

Whitelisted subset -- anything else raises Unsupported (the caller then fails closed):
  statements : assignment / augmented assignment (+= -= *= /=) to self.attr or a local name,
               if / elif / else, return [expr], pass, docstrings, calls to self.dprint(...)/print(...)
               whose value is unused (debug output, ignored), `assert` is NOT accepted
  expressions: self.attr, locals, parameters, int/float constants, + - * / unary -, comparisons
               < <= > >= == != (single, no chains), and / or / not, min(a,b) max(a,b) abs(a),
               conditional expressions
The translator is part of the trusted base of the properties that use it.
"""
import ast
from fractions import Fraction


class Unsupported(Exception):
    pass


def qlit(v):
    f = Fraction(v)
    return f"(({f.numerator})%Z # {f.denominator})"


class Tr:
    def __init__(self, fields, prefix, record, params, ignore_calls=("dprint", "print")):
        self.fields, self.prefix, self.record, self.params = list(fields), prefix, record, list(params)
        self.ignore_calls = set(ignore_calls)
        self.fresh = 0

    # ---- expressions ----------------------------------------------------------------------------
    def expr(self, e, env):
        if isinstance(e, ast.Constant):
            if isinstance(e.value, bool) or not isinstance(e.value, (int, float)):
                raise Unsupported(f"constant {e.value!r}")
            return qlit(e.value)
        if isinstance(e, ast.Attribute) and isinstance(e.value, ast.Name) and e.value.id == "self":
            if e.attr not in self.fields:
                raise Unsupported(f"self.{e.attr} is not a modelled field")
            return env["self"][e.attr]
        if isinstance(e, ast.Name):
            if e.id in env["locals"]:
                return env["locals"][e.id]
            raise Unsupported(f"name {e.id}")
        if isinstance(e, ast.BinOp):
            ops = {ast.Add: "+", ast.Sub: "-", ast.Mult: "*", ast.Div: "/"}
            if type(e.op) not in ops:
                raise Unsupported(f"operator {type(e.op).__name__}")
            return f"({self.expr(e.left, env)} {ops[type(e.op)]} {self.expr(e.right, env)})"
        if isinstance(e, ast.UnaryOp) and isinstance(e.op, ast.USub):
            return f"(- {self.expr(e.operand, env)})"
        if isinstance(e, ast.Call) and isinstance(e.func, ast.Name) and e.func.id in ("min", "max", "abs") and not e.keywords:
            args = [self.expr(a, env) for a in e.args]
            if e.func.id == "abs" and len(args) == 1:
                return f"(Qabs {args[0]})"
            if len(args) == 2:
                return f"(Q{e.func.id} {args[0]} {args[1]})"
            raise Unsupported("min/max arity")
        if isinstance(e, ast.IfExp):
            return f"(if {self.cond(e.test, env)} then {self.expr(e.body, env)} else {self.expr(e.orelse, env)})"
        raise Unsupported(f"expression {ast.dump(e)[:80]}")

    def cond(self, e, env):
        if isinstance(e, ast.Compare):
            if len(e.ops) != 1:
                raise Unsupported("chained comparison")
            a, b = self.expr(e.left, env), self.expr(e.comparators[0], env)
            op = type(e.ops[0])
            if op is ast.LtE:
                return f"(Qle_bool {a} {b})"
            if op is ast.GtE:
                return f"(Qle_bool {b} {a})"
            if op is ast.Lt:
                return f"(negb (Qle_bool {b} {a}))"
            if op is ast.Gt:
                return f"(negb (Qle_bool {a} {b}))"
            if op is ast.Eq:
                return f"(Qeq_bool {a} {b})"
            if op is ast.NotEq:
                return f"(negb (Qeq_bool {a} {b}))"
            raise Unsupported("comparison operator")
        if isinstance(e, ast.BoolOp):
            parts = [self.cond(v, env) for v in e.values]
            j = " && " if isinstance(e.op, ast.And) else " || "
            return "(" + j.join(parts) + ")"
        if isinstance(e, ast.UnaryOp) and isinstance(e.op, ast.Not):
            return f"(negb {self.cond(e.operand, env)})"
        raise Unsupported(f"condition {ast.dump(e)[:80]}")

    # ---- statements (continuation style, so `return` inside a branch works) ---------------------------
    def state_term(self, env):
        return "{| " + "; ".join(f"{self.prefix}{f} := {env['self'][f]}" for f in self.fields) + " |}"

    def block(self, stmts, env, want_result):
        if not stmts:
            st = self.state_term(env)
            return f"({st}, 0)" if want_result else st
        s, rest = stmts[0], stmts[1:]
        if isinstance(s, ast.Expr):
            if isinstance(s.value, ast.Constant) and isinstance(s.value.value, str):
                return self.block(rest, env, want_result)
            c = s.value
            if isinstance(c, ast.Call) and ((isinstance(c.func, ast.Attribute) and c.func.attr in self.ignore_calls) or
                                            (isinstance(c.func, ast.Name) and c.func.id in self.ignore_calls)):
                return self.block(rest, env, want_result)
            raise Unsupported(f"expression statement {ast.dump(s)[:80]}")
        if isinstance(s, ast.Pass):
            return self.block(rest, env, want_result)
        if isinstance(s, ast.Return):
            st = self.state_term(env)
            if want_result:
                v = self.expr(s.value, env) if s.value is not None else "0"
                return f"({st}, {v})"
            return st
        if isinstance(s, (ast.Assign, ast.AugAssign)):
            if isinstance(s, ast.Assign):
                if len(s.targets) != 1:
                    raise Unsupported("multiple targets")
                tgt, val = s.targets[0], self.expr(s.value, env)
            else:
                tgt = s.target
                ops = {ast.Add: "+", ast.Sub: "-", ast.Mult: "*", ast.Div: "/"}
                if type(s.op) not in ops:
                    raise Unsupported("augmented operator")
                cur = self.expr(tgt, env)
                val = f"({cur} {ops[type(s.op)]} {self.expr(s.value, env)})"
            self.fresh += 1
            v = f"v{self.fresh}"
            env2 = {"self": dict(env["self"]), "locals": dict(env["locals"])}
            if isinstance(tgt, ast.Attribute) and isinstance(tgt.value, ast.Name) and tgt.value.id == "self":
                if tgt.attr not in self.fields:
                    raise Unsupported(f"assignment to unmodelled self.{tgt.attr}")
                env2["self"][tgt.attr] = v
            elif isinstance(tgt, ast.Name):
                env2["locals"][tgt.id] = v
            else:
                raise Unsupported("assignment target")
            return f"let {v} := {val} in\n  {self.block(rest, env2, want_result)}"
        if isinstance(s, ast.If):
            c = self.cond(s.test, env)
            a = self.block(list(s.body) + rest, env, want_result)
            b = self.block(list(s.orelse) + rest, env, want_result)
            return f"(if {c}\n   then {a}\n   else {b})"
        raise Unsupported(f"statement {type(s).__name__}")


def find_method(path, cls, method):
    tree = ast.parse(open(path).read())
    for node in ast.walk(tree):
        if isinstance(node, ast.ClassDef) and node.name == cls:
            for f in node.body:
                if isinstance(f, ast.FunctionDef) and f.name == method:
                    return f
    raise Unsupported(f"{cls}.{method} not found in {path}")


def translate_method(path, cls, method, fields, prefix, record, name=None, want_result=False):
    f = find_method(path, cls, method)
    if f.args.vararg or f.args.kwarg or f.args.kwonlyargs or f.decorator_list:
        raise Unsupported("signature")
    params = [a.arg for a in f.args.args][1:]
    tr = Tr(fields, prefix, record, params)
    env = {"self": {fl: f"({prefix}{fl} s)" for fl in fields}, "locals": {p: p for p in params}}
    body = tr.block(list(f.body), env, want_result)
    name = name or f"gen_{cls}_{method}"
    ps = "".join(f" ({p} : Q)" for p in params)
    rt = f"({record} * Q)" if want_result else record
    return f"Definition {name} (s : {record}){ps} : {rt} :=\n  {body}.\n"


HEADER = ("(* GENERATED on every run by vlib/translate.py from the current sources of $VERIF_REPO. Do not edit. *)\n"
          "From Coq Require Import ZArith QArith Qminmax Qabs Bool.\n")
