"""Fail-closed translator of straight-line Python methods to Gallina (DESIGN.md 2.6, second tie).

translate_method(path, cls, method, fields, prefix, record, params) reads the CURRENT source file,
finds `class cls: def method(self, ...)` and emits

    Definition <name> (s : <record>) (<params> : Q) : <record> := ...

where every `self.<attr>` with attr in `fields` is the record field `<prefix><attr>` (all numbers are
Q; Python ints and floats are converted exactly), local variables become `let`s, `if/elif/else`
becomes `if`, and `return` ends the method (methods are translated as state transformers; a returned
value is ignored unless want_result=True, in which case the definition returns (state * Q)).

Whitelisted subset -- anything else raises Unsupported (the caller then fails closed):
  statements : assignment / augmented assignment (+= -= *= /=) to self.attr or a local name,
               if / elif / else, return [expr], pass, docstrings, calls to self.dprint(...)/print(...)
               whose value is unused (debug output, ignored), `assert` is NOT accepted
  expressions: self.attr, locals, parameters, int/float constants, + - * / unary -, comparisons
               < <= > >= == != (single, no chains), and / or / not, min(a,b) max(a,b) abs(a),
               conditional expressions
The translator is part of the trusted base of the properties that use it.
"""
import ast
from fractions import Fraction


class Unsupported(Exception):
    pass


def qlit(v):
    f = Fraction(v)
    return f"(({f.numerator})%Z # {f.denominator})"


class Tr:
    def __init__(self, fields, prefix, record, params, ignore_calls=("dprint", "print")):
        self.fields, self.prefix, self.record, self.params = list(fields), prefix, record, list(params)
        self.ignore_calls = set(ignore_calls)
        self.fresh = 0

    # ---- expressions ----------------------------------------------------------------------------
    def expr(self, e, env):
        if isinstance(e, ast.Constant):
            if isinstance(e.value, bool) or not isinstance(e.value, (int, float)):
                raise Unsupported(f"constant {e.value!r}")
            return qlit(e.value)
        if isinstance(e, ast.Attribute) and isinstance(e.value, ast.Name) and e.value.id == "self":
            if e.attr not in self.fields:
                raise Unsupported(f"self.{e.attr} is not a modelled field")
            return env["self"][e.attr]
        if isinstance(e, ast.Name):
            if e.id in env["locals"]:
                return env["locals"][e.id]
            raise Unsupported(f"name {e.id}")
        if isinstance(e, ast.BinOp):
            ops = {ast.Add: "+", ast.Sub: "-", ast.Mult: "*", ast.Div: "/"}
            if type(e.op) not in ops:
                raise Unsupported(f"operator {type(e.op).__name__}")
            return f"({self.expr(e.left, env)} {ops[type(e.op)]} {self.expr(e.right, env)})"
        if isinstance(e, ast.UnaryOp) and isinstance(e.op, ast.USub):
            return f"(- {self.expr(e.operand, env)})"
        if isinstance(e, ast.Call) and isinstance(e.func, ast.Name) and e.func.id in ("min", "max", "abs") and not e.keywords:
            args = [self.expr(a, env) for a in e.args]
            if e.func.id == "abs" and len(args) == 1:
                return f"(Qabs {args[0]})"
            if len(args) == 2:
                return f"(Q{e.func.id} {args[0]} {args[1]})"
            raise Unsupported("min/max arity")
        if isinstance(e, ast.IfExp):
            return f"(if {self.cond(e.test, env)} then {self.expr(e.body, env)} else {self.expr(e.orelse, env)})"
        raise Unsupported(f"expression {ast.dump(e)[:80]}")

    def cond(self, e, env):
        if isinstance(e, ast.Compare):
            if len(e.ops) != 1:
                raise Unsupported("chained comparison")
            a, b = self.expr(e.left, env), self.expr(e.comparators[0], env)
            op = type(e.ops[0])
            if op is ast.LtE:
                return f"(Qle_bool {a} {b})"
            if op is ast.GtE:
                return f"(Qle_bool {b} {a})"
            if op is ast.Lt:
                return f"(negb (Qle_bool {b} {a}))"
            if op is ast.Gt:
                return f"(negb (Qle_bool {a} {b}))"
            if op is ast.Eq:
                return f"(Qeq_bool {a} {b})"
            if op is ast.NotEq:
                return f"(negb (Qeq_bool {a} {b}))"
            raise Unsupported("comparison operator")
        if isinstance(e, ast.BoolOp):
            parts = [self.cond(v, env) for v in e.values]
            j = " && " if isinstance(e.op, ast.And) else " || "
            return "(" + j.join(parts) + ")"
        if isinstance(e, ast.UnaryOp) and isinstance(e.op, ast.Not):
            return f"(negb {self.cond(e.operand, env)})"
        raise Unsupported(f"condition {ast.dump(e)[:80]}")

    # ---- statements (continuation style, so `return` inside a branch works) ---------------------------
    def state_term(self, env):
        return "{| " + "; ".join(f"{self.prefix}{f} := {env['self'][f]}" for f in self.fields) + " |}"

    def block(self, stmts, env, want_result):
        if not stmts:
            st = self.state_term(env)
            return f"({st}, 0)" if want_result else st
        s, rest = stmts[0], stmts[1:]
        if isinstance(s, ast.Expr):
            if isinstance(s.value, ast.Constant) and isinstance(s.value.value, str):
                return self.block(rest, env, want_result)
            c = s.value
            if isinstance(c, ast.Call) and ((isinstance(c.func, ast.Attribute) and c.func.attr in self.ignore_calls) or
                                            (isinstance(c.func, ast.Name) and c.func.id in self.ignore_calls)):
                return self.block(rest, env, want_result)
            raise Unsupported(f"expression statement {ast.dump(s)[:80]}")
        if isinstance(s, ast.Pass):
            return self.block(rest, env, want_result)
        if isinstance(s, ast.Return):
            st = self.state_term(env)
            if want_result:
                v = self.expr(s.value, env) if s.value is not None else "0"
                return f"({st}, {v})"
            return st
        if isinstance(s, (ast.Assign, ast.AugAssign)):
            if isinstance(s, ast.Assign):
                if len(s.targets) != 1:
                    raise Unsupported("multiple targets")
                tgt, val = s.targets[0], self.expr(s.value, env)
            else:
                tgt = s.target
                ops = {ast.Add: "+", ast.Sub: "-", ast.Mult: "*", ast.Div: "/"}
                if type(s.op) not in ops:
                    raise Unsupported("augmented operator")
                cur = self.expr(tgt, env)
                val = f"({cur} {ops[type(s.op)]} {self.expr(s.value, env)})"
            self.fresh += 1
            v = f"v{self.fresh}"
            env2 = {"self": dict(env["self"]), "locals": dict(env["locals"])}
            if isinstance(tgt, ast.Attribute) and isinstance(tgt.value, ast.Name) and tgt.value.id == "self":
                if tgt.attr not in self.fields:
                    raise Unsupported(f"assignment to unmodelled self.{tgt.attr}")
                env2["self"][tgt.attr] = v
            elif isinstance(tgt, ast.Name):
                env2["locals"][tgt.id] = v
            else:
                raise Unsupported("assignment target")
            return f"let {v} := {val} in\n  {self.block(rest, env2, want_result)}"
        if isinstance(s, ast.If):
            c = self.cond(s.test, env)
            a = self.block(list(s.body) + rest, env, want_result)
            b = self.block(list(s.orelse) + rest, env, want_result)
            return f"(if {c}\n   then {a}\n   else {b})"
        raise Unsupported(f"statement {type(s).__name__}")


def find_method(path, cls, method, decorator=None):
    """the def of cls.method; decorator = None: the first one; "property" / "<name>.setter": the def carrying exactly
    that decorator (a property getter / setter)"""
    tree = ast.parse(open(path).read())
    for node in ast.walk(tree):
        if isinstance(node, ast.ClassDef) and node.name == cls:
            for f in node.body:
                if isinstance(f, ast.FunctionDef) and f.name == method:
                    if decorator is None or [ast.unparse(d) for d in f.decorator_list] == [decorator]:
                        return f
    raise Unsupported(f"{cls}.{method} not found in {path}")


def translate_method(path, cls, method, fields, prefix, record, name=None, want_result=False):
    f = find_method(path, cls, method)
    if f.args.vararg or f.args.kwarg or f.args.kwonlyargs or f.decorator_list:
        raise Unsupported("signature")
    params = [a.arg for a in f.args.args][1:]
    tr = Tr(fields, prefix, record, params)
    env = {"self": {fl: f"({prefix}{fl} s)" for fl in fields}, "locals": {p: p for p in params}}
    body = tr.block(list(f.body), env, want_result)
    name = name or f"gen_{cls}_{method}"
    ps = "".join(f" ({p} : Q)" for p in params)
    rt = f"({record} * Q)" if want_result else record
    return f"Definition {name} (s : {record}){ps} : {rt} :=\n  {body}.\n"


HEADER = ("(* GENERATED on every run by vlib/translate.py from the current sources of $VERIF_REPO. Do not edit. *)\n"
          "From Coq Require Import ZArith QArith Qminmax Qabs Bool.\n")


# =====================================================================================================
# Effectful leaf bodies (put(), _do_put(), stop() ...): observations, effects, Python's None.
#
# A body is translated to ONE Gallina definition
#
#     Definition <name> (s : <record>) (<read params>) : <record> * list <effect> [* bool] := ...
#
# driven by three explicit, per-function tables (an expression or statement that is in none of them and is
# not in the numeric subset above raises Unsupported: the caller fails closed):
#
#   state    [(attr, type)]        mutable numeric fields of self; they form the record (read: current value,
#                                  assignment: new value); type is "Z" or "Q"
#   reads    [(python expression, parameter, type)]
#                                  read-only OBSERVATIONS, matched as whole expressions (`len(self.store.items)`,
#                                  `self.env.now`, `packet.size`, `self.qlimit`), each a parameter of the definition,
#                                  always all of them and in table order, so the bridge's statement is stable.
#            types:  "Z" | "Q" | "bool" (Python bool/int/float)
#                    "optZ" / "optQ"  a value that may be None.  Python's semantics is made explicit by case
#                             analysis: an `if` whose test mentions the parameter becomes `match p with None | Some p'`
#                             and is translated once per case; inside a case `p is None` is a literal, truthiness
#                             is `false` / `p' != 0`, arithmetic uses p' -- and arithmetic on a value not known to be
#                             non-None (Python: TypeError) is Unsupported.  Strings the plugin encodes as Z with "" = 0
#                             have the same truthiness.
#                    "optobj" None or an object with default truthiness (no __bool__/__len__: a Device): the parameter
#                             is the bool "is not None"; only truthiness and `is None` are translated
#                    "optref" None or any object (a dict, whose truthiness is its non-emptiness): the parameter is the
#                             bool "is not None"; only `is None` / `is not None` are translated
#                    "len"    a collection only its length is read of: `len(x)` is the parameter (Z), truthiness of
#                             `x` is `p != 0`; any other use is Unsupported
#            a 4th component "volatile" marks a read an effect may change: reading it after any effect that does
#            not list it under `keeps` is Unsupported (stale observation); "needs:<Constructor>" marks a read that
#            only makes sense after that effect happened on every path to it (`preempt.key` after the victim was picked);
#            "stale_on:<field>" marks a read computed from a state field (`self.total_packets` from queue_count): reading
#            it after an assignment to that field is Unsupported
#   effects  [(python statement with holes _1 _2.., constructor, [hole types], keeps)]
#                                  statement-level calls / stores whose value is unused, matched structurally; the
#                                  constructor (applied to the translated holes) is appended to the effect list, so
#                                  the definition returns the effects IN PROGRAM ORDER; a pattern may be any statement
#                                  (a whole `try: x.remove(y) / except ValueError: pass`; a block consisting of the
#                                  single name `_body` matches any statements: a loop whose body is tied on its own);
#                                  a pattern that is a
#                                  `return <call>` or a `raise ...` ends the path (the function is declared ret="unit")
#   state fields of type "mapQ" / "mapZ" are dicts with integer keys modelled as total functions Z -> Q / Z -> Z:
#            `self.d[k]` reads (d k), `self.d[k] = v` / `+=` writes gen_upd d k v; a KeyError of a plain dict is NOT
#            modelled (the bridge states for which keys it speaks); any other use of the dict is Unsupported
#   stateops [(python statement, state field, parameter)]
#                                  a listed statement (a loop) that transforms ONE state field: field := parameter field,
#                                  the parameter being a function the bridge instantiates (`for c in self.weights.keys():
#                                  self.finish_times[c] = 0.0`)
#   bindings [(python statement, local, parameter, type)]
#                                  a listed statement (a loop) that adds an outside value to a local already defined:
#                                  local := local + parameter (`for i in self.active_set: weight_sum += self.weights[i]`)
#   inline   [name | (name, file, class)]   `self.m(a, ..)` as a statement: the body of m (same class, or the named base
#                                  class; no return) is translated in place with the same tables; arguments must be
#                                  plain names equal to m's parameter names; its locals do not leak
#   `/` is Q division: a ZeroDivisionError is not modelled (x / 0 = 0 in Q); the bridges state the divisor non-zero.
#   select   "loop_after_yield": the method is a process body `while True: yield <wait>; <statements>`; the statements
#            run at each resumption are translated (anything else in the method: Unsupported);
#            "sample_loop_body": `while True: yield <wait>; for x in <iterable>: <statements>`: the statements for one x
#   guards   [(python statement, parameter, constructor_exit, constructor_go)]
#            a listed `try: <operation> / except E: raise X` (or any statement with exactly two ways on): a boolean
#            parameter decides; true: constructor_exit is appended and the path ends; false: constructor_go is appended
#            and the body goes on (`try: .. = heappop(self._queue) / except IndexError: raise EmptySchedule()`)
#   local_state  the state record holds loop-carried LOCALS (idx) instead of fields of self; with select="before_loop" the
#            statements before the method's only top-level while are translated (the initial record), with select="loop"
#            the while itself: one evaluation of its test, then the body (loop_again) or what follows the loop
#            (`for i, x in enumerate(C)` with C observed through len: the test is i < len(C), i += 1 after the body, i starts at 0)
#            (`for x in C` likewise, the position being the hidden local named by loop_index)
#            select="inner_for": the method's only for loop, wherever it is nested, alone
#   loop_again  constructor: a top-level `while True:` is translated as ONE iteration: `break` goes on with what follows
#            the loop; reaching the end of the body appends the constructor and ends the path (the next iteration is
#            the same body again, on the values the effects left behind)
#   raising  [(constructor, [(exception class, parameter)])]   inside a `try` (translated statement by statement, no
#            else / finally) a listed effect may raise: one boolean parameter per class, tested in the order given;
#            true: the first handler catching that class is translated, then what follows the try statement
#   switches [(python statement, [(parameter | None, constructor | None, "break" | "end" | "go")])]   a listed statement
#            with several ways on (`try: if event.callbacks is not None: ..append..; break / except AttributeError: ..raise`)
#   decorator "property" / "<name>.setter": the method is that property getter / setter
#   aliases  [(python statement, name)]   `x = <object expression>` where x is afterwards only read through listed
#            observations marked "needs:<name>" (`service_pkt = self.scheduler.packet_in_service`)
#   ignore_stmts [python statement]   whole statements dropped (a debug block `if self.debug: ...` that only prints)
#   draws    [(python expression, parameter | [parameters], type, constructor)]
#                                  `name = <expression>` consuming an outside value (random.uniform(0, 1)): the value
#                                  is the parameter, the constructor is appended to the effects; at most once per path
#                                  (with a list of parameters: the k-th consumption on a path reads the k-th one).
#                                  A draw that is a proper subexpression of an assignment or of an `if` test is consumed
#                                  before the statement (the rest of the expression being pure); `a and <draw ..>` in an
#                                  `if` test is first split into nested ifs (short circuit); any other position is Unsupported
#
# Statements: assignments / augmented assignments to state fields and locals, if / elif / else, return
# [True | False | condition] (ret="bool") or bare return (ret="unit"), pass, docstrings, print()/dprint() calls
# (ignored: debug output; their arguments are not evaluated).  An `if` without `return` inside is joined
# (`let '(x2, fx2) := if c then .. else .. in`): only the variables it changes are bound; an `if` that changes
# nothing (debug printing) disappears after its test was checked to be in the subset.  An `if` with a `return`
# inside duplicates the rest of the body into its branches.  Integer arithmetic stays in Z, `/` and any
# operation with a Q operand is in Q (ints are injected exactly), `2 ** e` is Qpower.


class V:
    """a translated value: Coq term + type (Z, Q, bool)"""

    def __init__(self, term, ty):
        self.term, self.ty = term, ty


def _parse_expr(src):
    return ast.parse(src.strip(), mode="eval").body


def _parse_stmt(src):
    m = ast.parse(src.strip()).body
    if len(m) != 1:
        raise ValueError("pattern must be one statement: " + src)
    return m[0]


def _match(pat, node, binds):
    """structural match of ast `node` against `pat`; Names _1, _2 .. in pat are holes"""
    if isinstance(pat, ast.Name) and len(pat.id) > 1 and pat.id[0] == "_" and pat.id[1:].isdigit():
        if pat.id in binds:
            return ast.dump(binds[pat.id]) == ast.dump(node)
        binds[pat.id] = node
        return True
    if type(pat) is not type(node):
        return False
    for f, pv in ast.iter_fields(pat):
        if f in ("ctx", "type_comment", "kind"):
            continue
        nv = getattr(node, f, None)
        if isinstance(pv, list):
            if (len(pv) == 1 and isinstance(pv[0], ast.Expr) and isinstance(pv[0].value, ast.Name)
                    and pv[0].value.id == "_body" and isinstance(nv, list)):
                continue                                 # `_body` alone as a block: any statements (tied elsewhere)
            if not isinstance(nv, list) or len(pv) != len(nv):
                return False
            for a, b in zip(pv, nv):
                if isinstance(a, ast.AST):
                    if not _match(a, b, binds):
                        return False
                elif a != b:
                    return False
        elif isinstance(pv, ast.AST):
            if not isinstance(nv, ast.AST) or not _match(pv, nv, binds):
                return False
        elif pv != nv:
            return False
    return True


def _atomic(term):
    """an identifier, a field projection `(f s)` or a numeric literal"""
    import re
    return bool(re.fullmatch(r"[A-Za-z_][A-Za-z0-9_']*|\([A-Za-z_][A-Za-z0-9_']* s\)|\(-?[0-9]+\)%Z|\(-?[0-9]+ # [0-9]+\)", term))


def _peep(text):
    """`let x := T in x`  ->  T"""
    import re
    m = re.fullmatch(r"let ([A-Za-z_][A-Za-z0-9_']*) := (.*) in\n\1", text, flags=re.S)
    return m.group(2) if m and "\n" not in m.group(2) else text


def _ind(text, n):
    """indent every line of text but the first by n spaces"""
    return text.replace("\n", "\n" + " " * n)


def _is_none_const(e):
    return isinstance(e, ast.Constant) and e.value is None


class _EndTry(ast.stmt):
    """marker: the body of a translated try statement ends here"""
    _fields = ()

    def __init__(self, outer):
        super().__init__()
        self.outer = outer


class _EndLoop(ast.stmt):
    """marker: the body of the translated `while True` ran to its end"""
    _fields = ()


class FnSpec:
    def __init__(self, path, cls, method, name, reads=(), effects=(), draws=(), ret="unit", ignore_calls=("print", "dprint"),
                 select=None, stateops=(), bindings=(), inline=(), ignore_stmts=(), aliases=(), guards=(), decorator=None,
                 raising=(), switches=(), loop_again=None, local_state=False, loop_index=None):
        self.path, self.cls, self.method, self.name, self.select = path, cls, method, name, select
        self.stateops, self.bindings, self.inline = list(stateops), list(bindings), list(inline)
        self.ignore_stmts, self.aliases = list(ignore_stmts), list(aliases)
        self.guards, self.decorator = list(guards), decorator
        self.raising, self.switches, self.loop_again = list(raising), list(switches), loop_again
        self.local_state, self.loop_index = local_state, loop_index
        self.reads = [tuple(r) + (("",) if len(r) == 3 else ()) for r in reads]
        self.effects = [tuple(e) + (((),) if len(e) == 3 else ()) for e in effects]
        self.draws, self.ret, self.ignore_calls = list(draws), ret, set(ignore_calls)


COQ_TY = {"Z": "Z", "Q": "Q", "bool": "bool", "optZ": "option Z", "optQ": "option Q", "len": "Z", "optobj": "bool",
          "optref": "bool", "mapQ": "Z -> Q", "mapZ": "Z -> Z"}


class FxTr:
    """translator of one method body (see the comment above)"""

    def __init__(self, spec, state, record, prefix, effect_type):
        self.spec, self.state, self.record, self.prefix, self.effect_type = spec, list(state), record, prefix, effect_type
        self.reads = [(ast.dump(_parse_expr(src)), p, ty, flag) for (src, p, ty, flag) in spec.reads]
        self.len_reads = {ast.dump(_parse_expr(src)): (p, flag) for (src, p, ty, flag) in spec.reads if ty == "len"}
        self.effects = [(_parse_stmt(src), con, tys, keeps) for (src, con, tys, keeps) in spec.effects]
        self.draws = [(ast.dump(_parse_expr(src)), ([p] if isinstance(p, str) else list(p)), ty, con)
                      for (src, p, ty, con) in spec.draws]
        self.hoisted = 0
        self.volatile = {p for (_, p, _, flag) in spec.reads if flag == "volatile"}
        self.ignored = [_parse_stmt(src) for src in spec.ignore_stmts]
        self.aliases = [(_parse_stmt(src), name) for (src, name) in spec.aliases]
        self.guards = [(_parse_stmt(src), param, c_exit, c_go) for (src, param, c_exit, c_go) in spec.guards]
        self.switches = [(_parse_stmt(src), ways) for (src, ways) in spec.switches]
        self.raising = {con: list(ways) for (con, ways) in spec.raising}
        self.stateops = [(_parse_stmt(src), field, param) for (src, field, param) in spec.stateops]
        self.bindings = [(_parse_stmt(src), local, param, ty) for (src, local, param, ty) in spec.bindings]
        self.counters = {}

    # ---- environment: vars (name -> V), fx (base variable | None, [terms]), known (param -> None | narrowed name),
    #      stale (volatile params an effect may have changed), drawn (parameters already consumed)
    def env0(self):
        kind = "local" if self.spec.local_state else "self"      # local_state: the record holds loop-carried LOCALS
        vs = {(kind, a): V(f"({self.prefix}{a.lstrip('_')} s)", ty) for a, ty in self.state}
        return {"vars": vs, "fx": (None, []), "known": {}, "stale": set(), "drawn": set(), "done": set(), "ctl": (None, None)}

    @staticmethod
    def copy(env):
        return {"vars": dict(env["vars"]), "fx": (env["fx"][0], list(env["fx"][1])), "known": dict(env["known"]),
                "stale": set(env["stale"]), "drawn": set(env["drawn"]), "done": set(env["done"]),
                "ctl": env.get("ctl", (None, None))}       # (active try handlers, what `break` continues with)

    def fresh(self, base):
        base = base.lstrip("_") or "v"               # self._level -> level1
        self.counters[base] = self.counters.get(base, 0) + 1
        return f"{base}{self.counters[base]}"

    # ---- values -----------------------------------------------------------------------------------
    @staticmethod
    def toQ(v):
        if v.ty == "Q":
            return v.term
        if v.ty == "Z":
            m = v.term.strip("()")
            if m.endswith("%Z") and m[:-2].strip("()").lstrip("-").isdigit():
                return f"({m[:-2].strip('()')} # 1)"
            return f"(inject_Z {v.term})"
        raise Unsupported(f"a {v.ty} where a number is expected")

    def read(self, e, env):
        """the observation table entry for expression e, or None"""
        d = ast.dump(e)
        for (pd, p, ty, flag) in self.reads:
            if pd == d:
                if p in env["stale"]:
                    raise Unsupported(f"observation {p} is read after an effect or assignment that may have changed it")
                if flag.startswith("needs:") and flag[6:] not in env["done"]:
                    raise Unsupported(f"observation {p} is read on a path where {flag[6:]} has not happened")
                return p, ty
        return None

    def opt_value(self, p, env):
        """Coq term of type option _ for the option parameter p under the current knowledge"""
        if p not in env["known"]:
            return p
        k = env["known"][p]
        return "None" if k is None else f"(Some {k})"

    def expr(self, e, env):
        r = self.read(e, env)
        if r is not None:
            p, ty = r
            if ty in ("optZ", "optQ"):
                if env["known"].get(p) is None:
                    raise Unsupported(f"{p} may be None here (Python would raise TypeError in arithmetic)")
                return V(env["known"][p], ty[3:])
            if ty == "len":
                raise Unsupported(f"the collection behind {p} is used other than through len()/truthiness")
            if ty in ("optobj", "optref"):
                raise Unsupported(f"the object behind {p} is used other than through " +
                                  ("truthiness / " if ty == "optobj" else "") + "`is None`")
            return V(p, ty)
        if isinstance(e, ast.Constant):
            if isinstance(e.value, bool):
                return V("true" if e.value else "false", "bool")
            if isinstance(e.value, int):
                return V(f"({e.value})%Z", "Z")
            if isinstance(e.value, float):
                f = Fraction(e.value)
                return V(f"({f.numerator} # {f.denominator})", "Q")
            raise Unsupported(f"constant {e.value!r}")
        if isinstance(e, ast.Attribute) and isinstance(e.value, ast.Name) and e.value.id == "self":
            if ("self", e.attr) in env["vars"]:
                v = env["vars"][("self", e.attr)]
                if v.ty in ("mapQ", "mapZ"):
                    raise Unsupported(f"the dict self.{e.attr} is used other than through self.{e.attr}[key]")
                return v
            raise Unsupported(f"self.{e.attr} is neither a state field nor a listed observation")
        m = self.map_access(e, env)
        if m is not None:
            cur, key = m
            return V(f"({cur.term} {key})", cur.ty[3:])
        if isinstance(e, ast.Name):
            if ("local", e.id) in env["vars"]:
                return env["vars"][("local", e.id)]
            raise Unsupported(f"name {e.id} (not a local assigned on every path, not a listed observation)")
        if isinstance(e, ast.Call) and isinstance(e.func, ast.Name) and e.func.id == "len" and len(e.args) == 1 and not e.keywords:
            rd = self.read(e.args[0], env)
            if rd is not None and rd[1] == "len":
                return V(rd[0], "Z")
            raise Unsupported("len() of an expression that is not a listed observation")
        if isinstance(e, ast.BinOp):
            if isinstance(e.op, ast.Pow):
                b, x = self.expr(e.left, env), self.expr(e.right, env)
                if x.ty != "Z":
                    raise Unsupported("** with a non-integer exponent")
                return V(f"(Qpower {self.toQ(b)} {x.term})", "Q")
            ops = {ast.Add: "+", ast.Sub: "-", ast.Mult: "*", ast.Div: "/"}
            if type(e.op) not in ops:
                raise Unsupported(f"operator {type(e.op).__name__}")
            a, b = self.expr(e.left, env), self.expr(e.right, env)
            if a.ty == "Z" and b.ty == "Z" and not isinstance(e.op, ast.Div):
                return V(f"({a.term} {ops[type(e.op)]} {b.term})%Z", "Z")
            return V(f"({self.toQ(a)} {ops[type(e.op)]} {self.toQ(b)})%Q", "Q")
        if isinstance(e, ast.UnaryOp) and isinstance(e.op, ast.USub):
            a = self.expr(e.operand, env)
            return V(f"(- {a.term})%Z", "Z") if a.ty == "Z" else V(f"(- {self.toQ(a)})%Q", "Q")
        if isinstance(e, ast.Call) and isinstance(e.func, ast.Name) and e.func.id == "abs" and len(e.args) == 1 and not e.keywords:
            a = self.expr(e.args[0], env)
            return V(f"(Z.abs {a.term})", "Z") if a.ty == "Z" else V(f"(Qabs {self.toQ(a)})", "Q")
        if isinstance(e, ast.Call) and isinstance(e.func, ast.Name) and e.func.id in ("min", "max") and len(e.args) == 2 and not e.keywords:
            a, b = self.expr(e.args[0], env), self.expr(e.args[1], env)
            if a.ty == "Z" and b.ty == "Z":
                return V(f"(Z.{e.func.id} {a.term} {b.term})", "Z")
            return V(f"(Q{e.func.id} {self.toQ(a)} {self.toQ(b)})", "Q")
        if isinstance(e, (ast.Compare, ast.BoolOp)) or (isinstance(e, ast.UnaryOp) and isinstance(e.op, ast.Not)):
            return V(self.cond(e, env), "bool")
        raise Unsupported(f"expression {ast.unparse(e)[:80]}")

    def map_access(self, e, env):
        """e = self.<map field>[<integer key>]  ->  (current map value, key term), else None"""
        if (isinstance(e, ast.Subscript) and isinstance(e.value, ast.Attribute) and isinstance(e.value.value, ast.Name)
                and e.value.value.id == "self" and ("self", e.value.attr) in env["vars"]
                and env["vars"][("self", e.value.attr)].ty in ("mapQ", "mapZ")):
            k = self.expr(e.slice, env)
            if k.ty != "Z":
                raise Unsupported(f"key of self.{e.value.attr}[..] is not an integer")
            return env["vars"][("self", e.value.attr)], k.term
        return None

    def option_params(self, e, env):
        """option parameters mentioned in e about which nothing is known yet"""
        out = []
        for n in ast.walk(e):
            r = None
            try:
                r = self.read(n, env) if isinstance(n, ast.expr) else None
            except Unsupported:
                pass
            if r and r[1] in ("optZ", "optQ") and r[0] not in env["known"] and r[0] not in out:
                out.append(r[0])
        return out

    def cond(self, e, env):
        """e in a boolean context (Python truthiness), as a Coq bool; literals are folded"""
        rd0 = self.read(e, env)
        if rd0 is not None and rd0[1] == "bool":
            return rd0[0]
        if isinstance(e, ast.Compare):
            if len(e.ops) != 1:                      # a < b < c  =  a < b and b < c  (b is pure: evaluated once or twice alike)
                terms = [e.left] + list(e.comparators)
                return self.cond(ast.BoolOp(op=ast.And(), values=[
                    ast.Compare(left=terms[i], ops=[e.ops[i]], comparators=[terms[i + 1]]) for i in range(len(e.ops))]), env)
            l, r, op = e.left, e.comparators[0], type(e.ops[0])
            if op in (ast.Is, ast.IsNot):
                if not _is_none_const(r):
                    raise Unsupported("`is` against something other than None (list the comparison as an observation)")
                rd = self.read(l, env)
                if rd is not None and rd[1] in ("optobj", "optref"):
                    return f"(negb {rd[0]})" if op is ast.Is else rd[0]
                if rd is None or rd[1] not in ("optZ", "optQ"):
                    raise Unsupported(f"`{ast.unparse(l)} is None` on something that is not an option observation")
                if rd[0] not in env["known"]:
                    raise Unsupported(f"`{ast.unparse(e)}` outside the test of an if statement")
                isnone = env["known"][rd[0]] is None
                return "true" if isnone == (op is ast.Is) else "false"
            a, b = self.expr(l, env), self.expr(r, env)
            if a.ty == "bool" and b.ty == "bool" and op in (ast.Eq, ast.NotEq):
                t = f"(Bool.eqb {a.term} {b.term})"
                return t if op is ast.Eq else f"(negb {t})"
            if a.ty == "Z" and b.ty == "Z":
                x, y = a.term, b.term
                t = {ast.LtE: f"(Z.leb {x} {y})", ast.GtE: f"(Z.leb {y} {x})", ast.Lt: f"(Z.ltb {x} {y})",
                     ast.Gt: f"(Z.ltb {y} {x})", ast.Eq: f"(Z.eqb {x} {y})", ast.NotEq: f"(negb (Z.eqb {x} {y}))"}.get(op)
            else:
                x, y = self.toQ(a), self.toQ(b)
                t = {ast.LtE: f"(Qle_bool {x} {y})", ast.GtE: f"(Qle_bool {y} {x})", ast.Lt: f"(negb (Qle_bool {y} {x}))",
                     ast.Gt: f"(negb (Qle_bool {x} {y}))", ast.Eq: f"(Qeq_bool {x} {y})",
                     ast.NotEq: f"(negb (Qeq_bool {x} {y}))"}.get(op)
            if t is None:
                raise Unsupported("comparison operator")
            return t
        if isinstance(e, ast.BoolOp):
            parts = []
            for v in e.values:                       # short circuit: operands after a deciding literal are not evaluated
                parts.append(self.cond(v, env))
                if parts[-1] == ("false" if isinstance(e.op, ast.And) else "true"):
                    break
            if isinstance(e.op, ast.And):
                if "false" in parts:
                    return "false"
                parts = [p for p in parts if p != "true"]
                return "true" if not parts else parts[0] if len(parts) == 1 else "(" + " && ".join(parts) + ")"
            if "true" in parts:
                return "true"
            parts = [p for p in parts if p != "false"]
            return "false" if not parts else parts[0] if len(parts) == 1 else "(" + " || ".join(parts) + ")"
        if isinstance(e, ast.UnaryOp) and isinstance(e.op, ast.Not):
            c = self.cond(e.operand, env)
            return {"true": "false", "false": "true"}.get(c, f"(negb {c})")
        # truthiness of a value
        rd = self.read(e, env)
        if rd is not None and rd[1] == "len":
            return f"(negb (Z.eqb {rd[0]} 0))"
        if rd is not None and rd[1] == "optobj":
            return rd[0]
        if rd is not None and rd[1] in ("optZ", "optQ"):
            if rd[0] not in env["known"]:
                raise Unsupported(f"truthiness of {rd[0]} outside the test of an if statement")
            k = env["known"][rd[0]]
            if k is None:
                return "false"
            return f"(negb (Z.eqb {k} 0))" if rd[1] == "optZ" else f"(negb (Qeq_bool {k} 0))"
        v = self.expr(e, env)
        if v.ty == "bool":
            return v.term
        if v.ty == "Z":
            return f"(negb (Z.eqb {v.term} 0))"
        if v.ty == "Q":
            return f"(negb (Qeq_bool {v.term} 0))"
        raise Unsupported(f"truthiness of {ast.unparse(e)[:60]}")

    # ---- effects ----------------------------------------------------------------------------------
    def hole(self, node, ty, env):
        if ty in ("optZ", "optQ"):
            rd = self.read(node, env)
            if rd is not None and rd[1] == ty:
                return self.opt_value(rd[0], env)
            if _is_none_const(node):
                return "None"
            return f"(Some {self.hole(node, ty[3:], env)})"
        if ty == "bool":
            return self.cond(node, env)
        v = self.expr(node, env)
        if ty == "Q":
            return self.toQ(v)
        if ty == v.ty:
            return v.term
        raise Unsupported(f"effect argument {ast.unparse(node)[:60]} has type {v.ty}, expected {ty}")

    def effect(self, s, env):
        """-> new env if statement s is a listed effect, else None"""
        for (pat, con, tys, keeps) in self.effects:
            binds = {}
            if _match(pat, s, binds):
                names = sorted(binds, key=lambda n: int(n[1:]))
                if len(names) != len(tys):
                    raise Unsupported(f"effect pattern of {con}: {len(names)} holes, {len(tys)} types")
                for n in names:                          # a draw inside an argument is consumed before the effect
                    if self.contains_draw(binds[n]):
                        binds[n], env = self.hoist_draws(binds[n], env)
                args = [self.hole(binds[n], ty, env) for n, ty in zip(names, tys)]
                env2 = self.copy(env)
                env2["fx"][1].append(con if not args else "(" + " ".join([con] + args) + ")")
                env2["stale"] |= {p for p in self.volatile if p not in keeps}
                env2["done"].add(con)
                return env2
        return None

    @staticmethod
    def fx_term(fx):
        base, items = fx
        lst = "[" + "; ".join(items) + "]"
        if base is None:
            return lst
        return base if not items else f"({base} ++ {lst})"

    # ---- statements -------------------------------------------------------------------------------
    def final(self, env, ret):
        parts = []
        if self.state:
            kind = "local" if self.spec.local_state else "self"
            parts.append("{| " + "; ".join(f"{self.prefix}{a.lstrip('_')} := {env['vars'][(kind, a)].term}" for a, _ in self.state) + " |}")
        parts.append(self.fx_term(env["fx"]))
        if self.spec.ret == "bool":
            parts.append(ret)
        return parts[0] if len(parts) == 1 else "(" + ", ".join(parts) + ")"

    def bind(self, key, v, env):
        """let-bind a new value of variable key; returns (let line, env')"""
        env2 = self.copy(env)
        if key[0] == "self":                         # observations derived from this field are stale now
            env2["stale"] |= {p for (_, p, _, flag) in self.spec.reads if flag == "stale_on:" + key[1]}
        if _atomic(v.term):                          # `x = y`: an alias, no let
            env2["vars"][key] = V(v.term, v.ty)
            return "", env2
        n = self.fresh(key[1])
        env2["vars"][key] = V(n, v.ty)
        return f"let {n} := {v.term} in\n", env2

    def block(self, stmts, env, k):
        """k(env, ret) renders the end of the body (ret = Coq bool term of the returned value, or None)"""
        if not stmts:
            if self.spec.ret != "unit":
                raise Unsupported("a path ends without `return <bool>`")
            return k(env, None)
        s, rest = stmts[0], stmts[1:]
        if any(_match(pat, s, {}) for pat in self.ignored):  # a listed debug-output statement, dropped as a whole
            return self.block(rest, env, k)
        for (pat, param, c_exit, c_go) in self.guards:   # a listed `try: <op> / except E: raise ..`: two ways on an observation
            if _match(pat, s, {}):
                if self.spec.ret != "unit":
                    raise Unsupported("a listed guard statement needs ret='unit'")
                e_exit, e_go = self.copy(env), self.copy(env)
                e_exit["fx"][1].append(c_exit)
                e_exit["done"].add(c_exit)
                e_go["fx"][1].append(c_go)
                e_go["done"].add(c_go)
                e_go["stale"] |= set(self.volatile)
                saved = dict(self.counters)
                a = k(e_exit, None)
                self.counters = dict(saved)
                b = self.block(rest, e_go, k)
                return f"(if {param}\n then " + _ind(a, 6) + "\n else " + _ind(b, 6) + ")"
        for (pat, name) in self.aliases:                 # `x = <object>`: x is only read through listed observations
            if _match(pat, s, {}):                       # marked needs:<name>
                env2 = self.copy(env)
                env2["done"].add(name)
                return self.block(rest, env2, k)
        for (pat, field, param) in self.stateops:        # a listed statement that transforms one state field
            if _match(pat, s, {}):
                cur = env["vars"][("self", field)]
                line, env2 = self.bind(("self", field), V(f"({param} {cur.term})", cur.ty), env)
                return line + self.block(rest, env2, k)
        for (pat, local, param, ty) in self.bindings:    # a listed statement that adds an outside value to a local
            if _match(pat, s, {}):
                if ("local", local) not in env["vars"]:
                    raise Unsupported(f"{local} is not defined before the listed statement that accumulates into it")
                old = env["vars"][("local", local)]
                val = self.expr(ast.BinOp(left=ast.Name(id=local, ctx=ast.Load()), op=ast.Add(), right=ast.Name(id="\0", ctx=ast.Load())),
                                {**env, "vars": {**env["vars"], ("local", "\0"): V(param, ty)}})
                line, env2 = self.bind(("local", local), val, env)
                return line + self.block(rest, env2, k)
        if (isinstance(s, ast.Expr) and isinstance(s.value, ast.Call) and isinstance(s.value.func, ast.Attribute)
                and isinstance(s.value.func.value, ast.Name) and s.value.func.value.id == "self"
                and not s.value.keywords):
            for ent in self.spec.inline:
                ent = (ent, self.spec.path, self.spec.cls) if isinstance(ent, str) else tuple(ent)
                if ent[0] == s.value.func.attr:
                    return self.inline_call(ent, s.value.args, rest, env, k)
        env2 = self.effect(s, env)
        if env2 is not None:
            if isinstance(s, (ast.Return, ast.Raise)):   # a listed tail call (`return super()._do_put(event)`) or a
                if self.spec.ret != "unit":              # listed `raise ...` ends the path
                    raise Unsupported("a listed `return <call>` / `raise` needs ret='unit' (the effect list is the result)")
                return k(env2, None)
            con = env2["fx"][1][-1].strip("()").split(" ")[0] if env2["fx"][1] else None
            if con in self.raising and env2["ctl"][0] is not None:
                return self.raise_split(con, rest, env2, k)
            return self.block(rest, env2, k)
        for (pat, ways) in self.switches:                # a listed statement with several ways on, decided by observations
            if _match(pat, s, {}):
                return self.do_switch(ways, rest, env, k)
        if isinstance(s, _EndTry):
            env2 = self.copy(env)
            env2["ctl"] = (s.outer, env["ctl"][1])
            return self.block(rest, env2, k)
        if isinstance(s, ast.Try):
            if s.orelse or s.finalbody or not s.handlers:
                raise Unsupported("try with else / finally")
            env2 = self.copy(env)
            env2["ctl"] = ((s.handlers, rest, env["ctl"][0]), env["ctl"][1])
            return self.block(list(s.body) + [_EndTry(env["ctl"][0])] + rest, env2, k)
        if isinstance(s, ast.While):
            if not (self.spec.loop_again and not s.orelse):
                raise Unsupported("while (only with loop_again declared: ONE iteration is translated)")
            if env["ctl"][1] is not None:
                raise Unsupported("nested while")
            env2 = self.copy(env)
            env2["ctl"] = (env["ctl"][0], (rest, k))
            if isinstance(s.test, ast.Constant) and s.test.value is True:
                return self.block(list(s.body) + [_EndLoop()], env2, k)
            # `while <test>:` -- one evaluation of the test: true, the body (then again); false, what follows the loop
            c = self.cond(s.test, env)
            saved = dict(self.counters)
            a = self.block(list(s.body) + [_EndLoop()], env2, k)
            self.counters = dict(saved)
            b = self.block(rest, env, k)
            return f"(if {c}\n then " + _ind(a, 6) + "\n else " + _ind(b, 6) + ")"
        if isinstance(s, ast.For):
            # `for i, x in enumerate(<collection observed through len>):` as ONE iteration: i is a loop-carried local of the
            # state record (it starts at 0: enumerate), the test is i < len, x is only read through listed observations;
            # after the body i += 1 and the loop goes round again
            base = self.spec.loop_again and self.spec.local_state and not s.orelse and env["ctl"][1] is None
            enum = (base and isinstance(s.iter, ast.Call) and isinstance(s.iter.func, ast.Name) and s.iter.func.id == "enumerate"
                    and len(s.iter.args) == 1 and not s.iter.keywords and isinstance(s.target, ast.Tuple)
                    and len(s.target.elts) == 2 and all(isinstance(t, ast.Name) for t in s.target.elts)
                    and ("local", s.target.elts[0].id) in env["vars"])
            # `for x in <observed collection>:` -- the position is the hidden loop-carried local named by loop_index
            plain = (base and not enum and isinstance(s.target, ast.Name) and getattr(self.spec, "loop_index", None)
                     and ("local", self.spec.loop_index) in env["vars"])
            if not (enum or plain):
                raise Unsupported("for (only `for i, x in enumerate(C)` / `for x in C` (loop_index) over an observed collection, "
                                  "with loop_again and the index in the local state)")
            iname = s.target.elts[0].id if enum else self.spec.loop_index
            coll = s.iter.args[0] if enum else s.iter
            n = self.expr(ast.Call(func=ast.Name(id="len", ctx=ast.Load()), args=[coll], keywords=[]), env)
            c = f"(Z.ltb {env['vars'][('local', iname)].term} {n.term})"
            env2 = self.copy(env)
            env2["ctl"] = (env["ctl"][0], (rest, k))
            step = ast.AugAssign(target=ast.Name(id=iname, ctx=ast.Store()), op=ast.Add(), value=ast.Constant(value=1))
            saved = dict(self.counters)
            a = self.block(list(s.body) + [step, _EndLoop()], env2, k)
            self.counters = dict(saved)
            b = self.block(rest, env, k)
            return f"(if {c}\n then " + _ind(a, 6) + "\n else " + _ind(b, 6) + ")"
        if isinstance(s, _EndLoop):                      # the body ran to its end: the next iteration is the same body again
            env2 = self.copy(env)
            env2["fx"][1].append(self.spec.loop_again)
            return self.final(env2, None)
        if isinstance(s, ast.Break):
            if env["ctl"][1] is None:
                raise Unsupported("break outside the translated loop")
            after, k_after = env["ctl"][1]
            env2 = self.copy(env)
            env2["ctl"] = (None, None)
            return self.block(list(after), env2, k_after)
        if isinstance(s, ast.Pass):
            return self.block(rest, env, k)
        if isinstance(s, ast.Expr):
            c = s.value
            if isinstance(c, ast.Constant) and isinstance(c.value, str):
                return self.block(rest, env, k)
            if isinstance(c, ast.Call) and ((isinstance(c.func, ast.Attribute) and c.func.attr in self.spec.ignore_calls) or
                                            (isinstance(c.func, ast.Name) and c.func.id in self.spec.ignore_calls)):
                return self.block(rest, env, k)
            raise Unsupported(f"statement `{ast.unparse(s)[:80]}` is not a listed effect")
        if isinstance(s, ast.Return):
            if self.spec.ret == "unit":
                if s.value is not None and not _is_none_const(s.value):
                    raise Unsupported("return with a value in a procedure")
                return k(env, None)
            if s.value is None:
                raise Unsupported("bare return where a bool is expected")
            return k(env, self.cond(s.value, env))
        if isinstance(s, (ast.Assign, ast.AugAssign)):
            if isinstance(s, ast.Assign):
                if len(s.targets) != 1:
                    raise Unsupported("multiple targets")
                tgt = s.targets[0]
                d = ast.dump(s.value)
                for (dd, ps_, ty, con) in self.draws:
                    if dd == d:
                        if not isinstance(tgt, ast.Name):
                            raise Unsupported("a draw must be assigned to a local name")
                        env2, p = self.consume_draw(ps_, con, env)
                        env2["vars"][("local", tgt.id)] = V(p, ty)
                        return self.block(rest, env2, k)
                if self.contains_draw(s.value):           # the draw is a proper subexpression: it is evaluated first
                    value2, env = self.hoist_draws(s.value, env)
                    return self.block([ast.Assign(targets=[tgt], value=value2)] + rest, env, k)
                val = self.expr(s.value, env)
            else:
                tgt = s.target
                ops = {ast.Add: "+", ast.Sub: "-", ast.Mult: "*", ast.Div: "/"}
                if type(s.op) not in ops:
                    raise Unsupported("augmented operator")
                val = self.expr(ast.BinOp(left=tgt, op=s.op, right=s.value), env)
            mp = self.map_access(tgt, env) if isinstance(tgt, ast.Subscript) else None
            if mp is not None:                           # self.<map>[k] = v
                cur, kterm = mp
                key = ("self", tgt.value.attr)
                if cur.ty == "mapQ":
                    val = V(self.toQ(val), "Q")
                elif val.ty != "Z":
                    raise Unsupported(f"self.{tgt.value.attr}[..] : Z assigned a {val.ty}")
                val = V(f"(gen_upd {cur.term} {kterm} {val.term})", cur.ty)
            elif isinstance(tgt, ast.Attribute) and isinstance(tgt.value, ast.Name) and tgt.value.id == "self":
                key = ("self", tgt.attr)
                if key not in env["vars"]:
                    raise Unsupported(f"assignment to self.{tgt.attr}: neither a state field nor a listed effect")
                ty = dict(self.state)[tgt.attr]
                if ty in ("mapQ", "mapZ"):
                    raise Unsupported(f"the dict self.{tgt.attr} is replaced as a whole")
                if ty == "Q":
                    val = V(self.toQ(val), "Q")
                elif val.ty != ty:
                    raise Unsupported(f"self.{tgt.attr} : {ty} assigned a {val.ty}")
            elif isinstance(tgt, ast.Name):
                if self.read(tgt, env) is not None:
                    raise Unsupported(f"assignment to the observed name {tgt.id}")
                key = ("local", tgt.id)
            else:
                raise Unsupported(f"assignment target `{ast.unparse(tgt)[:60]}` is not a listed effect")
            line, env2 = self.bind(key, val, env)
            return line + self.block(rest, env2, k)
        if isinstance(s, ast.If):
            return self.do_if(s, rest, env, k)
        raise Unsupported(f"statement {type(s).__name__}")

    def raise_split(self, con, rest, env, k):
        """the effect just appended may raise inside a try: one branch per listed exception class (its handler translated,
        then what follows the try statement), else the body goes on"""
        handlers, after_try, outer = env["ctl"][0]
        saved = dict(self.counters)
        out = ""
        closing = ""
        for (exc_class, param) in self.raising[con]:
            h = None
            for cand in handlers:
                names = [cand.type.id] if isinstance(cand.type, ast.Name) else \
                        [e.id for e in cand.type.elts] if isinstance(cand.type, ast.Tuple) else []
                if exc_class in names or "BaseException" in names or (exc_class != "BaseException" and "Exception" in names and exc_class not in ("StopIteration_", )):
                    h = cand
                    break
            if h is None:
                raise Unsupported(f"{con} may raise {exc_class} and no handler of the enclosing try catches it")
            env_h = self.copy(env)
            env_h["ctl"] = (outer, env["ctl"][1])
            env_h["done"].add("raised:" + exc_class)
            self.counters = dict(saved)
            arm = self.block(list(h.body) + list(after_try), env_h, k)
            out += f"(if {param}\n then " + _ind(arm, 6) + "\n else "
            closing += ")"
        self.counters = dict(saved)
        return out + _ind(self.block(rest, env, k), 6) + closing

    def do_switch(self, ways, rest, env, k):
        """ways = [(parameter, constructor, "break" | "end" | "go")], the last one may have parameter None (otherwise)"""
        saved = dict(self.counters)
        out, closing = "", ""
        for (param, con, action) in ways:
            env2 = self.copy(env)
            if con:
                env2["fx"][1].append(con)
                env2["done"].add(con)
            env2["stale"] |= set(self.volatile)
            self.counters = dict(saved)
            if action == "break":
                arm = self.block([ast.Break()], env2, k)
            elif action == "end":
                arm = self.final(env2, None)
            else:
                arm = self.block(rest, env2, k)
            if param is None:
                out += _ind(arm, 6)
                break
            out += f"(if {param}\n then " + _ind(arm, 6) + "\n else "
            closing += ")"
        else:
            raise Unsupported("a switch needs a last way without parameter")
        return out + closing

    def inline_call(self, ent, args, rest, env, k):
        """`self.<name>(a, b)` for a method listed under inline (name, or (name, file, class) for a base class): its body
        is translated in place with the same tables (own locals, no return); every argument must be a plain name equal
        to the callee's parameter name, so that the observation tables read the same in both bodies"""
        name, path, cls = ent
        f = find_method(path, cls, name)
        if f.args.vararg or f.args.kwarg or f.args.kwonlyargs or f.decorator_list or f.args.defaults:
            raise Unsupported(f"inlined method {name}: signature")
        params = [a.arg for a in f.args.args][1:]
        if len(args) != len(params) or any(not isinstance(a, ast.Name) or a.id != q for a, q in zip(args, params)):
            raise Unsupported(f"inlined call of {name}: arguments must be the names {params}")
        if any(("local", q) in env["vars"] for q in params):
            raise Unsupported(f"inlined call of {name}: an argument is a local of the caller")
        if any(isinstance(n, (ast.Return, ast.Yield, ast.YieldFrom)) for n in ast.walk(f)):
            raise Unsupported(f"inlined method {name} contains return / yield")
        caller_ret = self.spec.ret
        caller_locals = {key: v for key, v in env["vars"].items() if key[0] == "local"}
        env_c = self.copy(env)
        env_c["vars"] = {key: v for key, v in env["vars"].items() if key[0] != "local"}

        def back(env_end, ret_):
            env_b = self.copy(env_end)
            env_b["vars"] = {**{key: v for key, v in env_end["vars"].items() if key[0] != "local"}, **caller_locals}
            inner = self.spec.ret
            self.spec.ret = caller_ret
            try:
                return self.block(rest, env_b, k)
            finally:
                self.spec.ret = inner
        self.spec.ret = "unit"
        try:
            return self.block(list(f.body), env_c, back)
        finally:
            self.spec.ret = caller_ret

    def consume_draw(self, params, con, env):
        """the next unused parameter of a draw on this path; the constructor is appended to the effects"""
        left = [q for q in params if q not in env["drawn"]]
        if not left:
            raise Unsupported(f"more draws of {params[0]} on one path than parameters listed ({len(params)})")
        env2 = self.copy(env)
        env2["drawn"].add(left[0])
        env2["fx"][1].append(con)
        env2["done"].add(con)
        return env2, left[0]

    def contains_draw(self, e):
        dumps = {d for (d, _, _, _) in self.draws}
        return bool(dumps) and any(ast.dump(n) in dumps for n in ast.walk(e) if isinstance(n, ast.expr))

    def hoist_draws(self, e, env):
        """draw calls inside the expression e (everything else in e is pure) are consumed left to right BEFORE e is
        evaluated: each is replaced by a fresh local holding the parameter"""
        tr = self

        class H(ast.NodeTransformer):
            def __init__(self):
                self.env = env

            def generic_visit(self, node):
                if isinstance(node, ast.expr):
                    for (dd, ps_, ty, con) in tr.draws:
                        if ast.dump(node) == dd:
                            self.env, p = tr.consume_draw(ps_, con, self.env)
                            tr.hoisted += 1
                            nm = f"\0draw{tr.hoisted}"
                            self.env["vars"][("local", nm)] = V(p, ty)
                            return ast.Name(id=nm, ctx=ast.Load())
                if isinstance(node, (ast.BoolOp, ast.IfExp)):
                    raise Unsupported("a draw under and / or / a conditional expression outside an if test")
                return super().generic_visit(node)
        h = H()
        e2 = h.visit(e)
        return e2, h.env

    def do_if(self, s, rest, env, k):
        if self.contains_draw(s.test):
            # Python's evaluation order made explicit: `a and b` with a draw in b is `if a: if b: ..`; a draw in a plain
            # test is consumed before the test
            t = s.test
            if isinstance(t, ast.BoolOp) and isinstance(t.op, ast.And) and not self.contains_draw(t.values[0]):
                inner = t.values[1] if len(t.values) == 2 else ast.BoolOp(op=ast.And(), values=t.values[1:])
                s2 = ast.If(test=t.values[0], body=[ast.If(test=inner, body=s.body, orelse=s.orelse)], orelse=s.orelse)
                return self.do_if(s2, rest, env, k)
            if isinstance(t, (ast.BoolOp, ast.IfExp)):
                raise Unsupported("a draw under or / in the first operand of and")
            t2, env = self.hoist_draws(t, env)
            return self.do_if(ast.If(test=t2, body=s.body, orelse=s.orelse), rest, env, k)
        # an `if` with a return inside, or the last statement of the body: the rest is translated inside the branches
        joinable = (bool(rest) and not any(isinstance(n, (ast.Return, ast.Raise, ast.Break)) for n in ast.walk(s))
                    and env.get("ctl", (None, None))[0] is None)     # inside a translated try a branch may leave through a handler
        unk = self.option_params(s.test, env)
        if unk:
            p = unk[0]
            q = p + "'"
            envN, envS = self.copy(env), self.copy(env)
            envN["known"][p] = None
            envS["known"][p] = q
            arms = [("| None =>", envN, [s]), (f"| Some {q} =>", envS, [s])]
            head, tail = f"match {p} with", "end"
        else:
            c = self.cond(s.test, env)
            if c == "true":
                return self.block(list(s.body) + rest, env, k)
            if c == "false":
                return self.block(list(s.orelse) + rest, env, k)
            arms = [("then", env, list(s.body)), ("else", env, list(s.orelse))]
            head, tail = f"if {c}", ""
        if not joinable:
            saved = dict(self.counters)
            subs, ends_c = [], []
            for (h, e, body) in arms:
                self.counters = dict(saved)          # the arms are alternatives: they may reuse names
                subs.append(self.block(body + rest, e, k))
                ends_c.append(dict(self.counters))
            self.counters = {n: max(c.get(n, 0) for c in ends_c) for c0 in ends_c for n in c0}   # ... but nothing after them does
            if not unk and all(x == subs[0] for x in subs):
                return subs[0]                       # `if debug: print(..)`: the test was checked, nothing depends on it
            out = f"({head}\n"
            for (h, e, body), sub in zip(arms, subs):
                out += f" {h} " + _ind(sub, len(h) + 2) + "\n"
            return (out + f" {tail}").rstrip() + ")"
        # join: pass 1 finds what the statement changes, pass 2 renders the arms returning exactly that
        saved = dict(self.counters)
        ends = []
        old_ret = self.spec.ret
        self.spec.ret = "unit"                     # the arms end without return by construction
        try:
            for (h, e, body) in arms:
                cap = []
                self.block(body, e, lambda env_, ret_, cap=cap: cap.append(env_) or "")
                ends.append(cap[0])
            changed = []
            for key in env["vars"]:
                if any(key not in e["vars"] or e["vars"][key].term != env["vars"][key].term for e in ends):
                    changed.append(key)
            newlocals = [key for key in ends[0]["vars"] if key not in env["vars"] and all(key in e["vars"] for e in ends)]
            changed += newlocals
            fx_changed = any(self.fx_term(e["fx"]) != self.fx_term(env["fx"]) for e in ends)
            tys = {}
            for key in changed:
                ts = {e["vars"][key].ty for e in ends}
                tys[key] = ts.pop() if len(ts) == 1 else ("Q" if ts <= {"Z", "Q"} else None)
                if tys[key] is None:
                    raise Unsupported(f"{key[1]} has different types after the branches of an if")
            for e in ends:
                if e["drawn"] != env["drawn"] and any(e2["drawn"] != e["drawn"] for e2 in ends):
                    pass                            # a draw in one branch only: allowed, recorded below
            self.counters = dict(saved)

            def tup(env_, ret_):
                items = [(self.toQ(env_["vars"][key]) if tys[key] == "Q" else env_["vars"][key].term) for key in changed]
                if fx_changed:
                    items.append(self.fx_term(env_["fx"]))
                return items[0] if len(items) == 1 else "(" + ", ".join(items) + ")"
            if not changed and not fx_changed:
                self.counters = dict(saved)
                out_env = self.copy(env)
            else:
                rendered = [(h, _peep(self.block(body, e, tup))) for (h, e, body) in arms]
                out_env = self.copy(env)
                names = []
                for key in changed:
                    n = self.fresh(key[1])
                    out_env["vars"][key] = V(n, tys[key])
                    names.append(n)
                if fx_changed:
                    n = self.fresh("fx")
                    out_env["fx"] = (n, [])
                    names.append(n)
                pat = names[0] if len(names) == 1 else "'(" + ", ".join(names) + ")"
        finally:
            self.spec.ret = old_ret
        for e in ends:
            out_env["stale"] |= e["stale"]
            out_env["drawn"] |= e["drawn"]
        out_env["done"] = set.intersection(*[e["done"] for e in ends])
        if not changed and not fx_changed:
            return self.block(rest, out_env, k)
        body = f"({head}\n" + "".join(f" {h} " + _ind(r, len(h) + 2) + "\n" for h, r in rendered)
        body = (body + f" {tail}").rstrip() + ")"
        return f"let {pat} :=\n  " + _ind(body, 2) + " in\n" + self.block(rest, out_env, k)


def translate_fn(spec, state, record, prefix, effect_type):
    """Gallina definition of one method (FnSpec) over the shared state record / effect type"""
    f = find_method(spec.path, spec.cls, spec.method, spec.decorator)
    # default values of parameters are not translated: a parameter is read only through the observation table
    if f.args.vararg or f.args.kwarg or f.args.kwonlyargs or (f.decorator_list and spec.decorator is None):
        raise Unsupported(f"{spec.cls}.{spec.method}: signature")
    tr = FxTr(spec, state, record, prefix, effect_type)
    stmts = list(f.body)
    if spec.select == "loop_after_yield":
        # a process body `while True: yield <wait>; <statements>`: the statements executed at each resumption
        stmts = [x for x in stmts if not (isinstance(x, ast.Expr) and isinstance(x.value, ast.Constant))]
        ok = (len(stmts) == 1 and isinstance(stmts[0], ast.While) and isinstance(stmts[0].test, ast.Constant)
              and stmts[0].test.value is True and not stmts[0].orelse and stmts[0].body
              and isinstance(stmts[0].body[0], ast.Expr) and isinstance(stmts[0].body[0].value, ast.Yield))
        if not ok:
            raise Unsupported(f"{spec.cls}.{spec.method}: not of the shape `while True: yield ...; statements`")
        stmts = list(stmts[0].body[1:])
        if any(isinstance(n, (ast.Yield, ast.YieldFrom, ast.Break, ast.Continue, ast.Return)) for x in stmts for n in ast.walk(x)):
            raise Unsupported(f"{spec.cls}.{spec.method}: yield / break / continue / return inside the sampled statements")
    elif spec.select in ("before_loop", "loop"):
        # `<initialisation>; while ..: ..; <rest>`: "before_loop" = the initialisation alone (the loop-carried locals are the
        # state record: local_state), "loop" = ONE iteration of the while (and what follows it when it ends)
        stmts = [x for x in stmts if not (isinstance(x, ast.Expr) and isinstance(x.value, ast.Constant))]
        pos = [i for i, x in enumerate(stmts) if isinstance(x, (ast.While, ast.For))
               and not any(_match(pat, x, {}) for (pat, _, _, _) in tr.effects)]      # a loop listed as an effect is a statement
        if len(pos) != 1:
            raise Unsupported(f"{spec.cls}.{spec.method}: not exactly one top-level loop")
        stmts = stmts[:pos[0]] if spec.select == "before_loop" else stmts[pos[0]:]
    elif spec.select == "inner_for":
        # the method's only `for` loop, wherever it is nested: ONE iteration of it (nothing before, nothing after)
        loops = [n for n in ast.walk(f) if isinstance(n, ast.For)]
        if len(loops) != 1:
            raise Unsupported(f"{spec.cls}.{spec.method}: not exactly one for loop")
        stmts = [loops[0]]
    elif spec.select == "sample_loop_body":
        # `while True: yield <wait>; for x in <iterable>: <statements>`: the statements for ONE x (x is a listed observation;
        # the loop itself -- which x, in which order -- is not translated)
        stmts = [x for x in stmts if not (isinstance(x, ast.Expr) and isinstance(x.value, ast.Constant))]
        ok = (len(stmts) == 1 and isinstance(stmts[0], ast.While) and isinstance(stmts[0].test, ast.Constant)
              and stmts[0].test.value is True and not stmts[0].orelse and len(stmts[0].body) == 2
              and isinstance(stmts[0].body[0], ast.Expr) and isinstance(stmts[0].body[0].value, ast.Yield)
              and isinstance(stmts[0].body[1], ast.For) and isinstance(stmts[0].body[1].target, ast.Name)
              and not stmts[0].body[1].orelse)
        if not ok:
            raise Unsupported(f"{spec.cls}.{spec.method}: not of the shape `while True: yield ...; for x in ...: statements`")
        stmts = list(stmts[0].body[1].body)
        if any(isinstance(n, (ast.Yield, ast.YieldFrom, ast.Break, ast.Continue, ast.Return)) for x in stmts for n in ast.walk(x)):
            raise Unsupported(f"{spec.cls}.{spec.method}: yield / break / continue / return inside the sampled statements")
    elif spec.select is not None:
        raise Unsupported(f"unknown selection {spec.select}")
    body = tr.block(stmts, tr.env0(), tr.final)
    ps = (f" (s : {record})" if state else "")
    for (_, p, ty, _) in spec.reads:
        ps += f" ({p} : {COQ_TY[ty]})"
    for (_, p, ty, _) in spec.draws:
        for q in ([p] if isinstance(p, str) else p):
            ps += f" ({q} : {COQ_TY[ty]})"
    for (_, field, p) in spec.stateops:
        t = COQ_TY[dict(state)[field]]
        ps += f" ({p} : ({t}) -> ({t}))"
    for (_, _, p, ty) in spec.bindings:
        ps += f" ({p} : {COQ_TY[ty]})"
    for (_, p, _, _) in spec.guards:
        ps += f" ({p} : bool)"
    seen = set()
    for (_, ways) in spec.raising:
        for (_, p) in ways:
            if p not in seen:
                seen.add(p)
                ps += f" ({p} : bool)"
    for (_, ways) in spec.switches:
        for (p, _, _) in ways:
            if p is not None:
                ps += f" ({p} : bool)"
    rt = ([record] if state else []) + [f"list {effect_type}"] + (["bool"] if spec.ret == "bool" else [])
    src = " ".join(l.strip() for l in ast.unparse(f).splitlines()[:1])
    return (f"(* {spec.cls}.{spec.method}  ({src}) *)\n"
            f"Definition {spec.name}{ps}\n  : {' * '.join(rt)} :=\n  " + _ind(body, 2) + ".\n")


def gen_module(title, record, prefix, state, effect_type, constructors, specs):
    """text of a Gen/Extracted_*.v: the state record, the effect inductive (constructors = [(name, "(k : option Z) (t : Q)")])
    and one definition per FnSpec"""
    out = [HEADER.rstrip("\n"), "From Coq Require Import List.", "Import ListNotations.", f"(* {title} *)", ""]
    if any(ty in ("mapQ", "mapZ") for _, ty in state):
        out.append("(* d[k] = v on a dict modelled as a total function *)")
        out.append("Definition gen_upd {V : Type} (f : Z -> V) (k : Z) (v : V) : Z -> V := fun x => if Z.eqb x k then v else f x.")
    if state:
        out.append(f"Record {record} := {{ " + "; ".join(f"{prefix}{a.lstrip('_')} : {COQ_TY[ty]}" for a, ty in state) + " }.")
    out.append(f"Inductive {effect_type} :=\n" + "\n".join(f"| {c} {args}".rstrip() for c, args in constructors) + ".")
    out.append("")
    for sp in specs:
        out.append(translate_fn(sp, state, record, prefix, effect_type))
    return "\n".join(out)


def write_if_changed(path, text):
    import os
    os.makedirs(os.path.dirname(path), exist_ok=True)
    old = open(path).read() if os.path.exists(path) else None
    if old != text:
        with open(path, "w") as fh:
            fh.write(text)
    return path
