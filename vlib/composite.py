"""A property whose check is assembled from several element 'parts' (one per modelled element family).

A part module (props/part_<name>.py) defines  PART = SomePart()  with:

    name            short name, e.g. "port"
    kinds           list of case kinds it generates, e.g. ["port", "redport"]
    coq_imports     list of Coq import lines its agree terms need
    props_files     dict  property id -> list of Coq files holding ITS theorems for that property,
                    e.g. {"C09": ["Props/C09.v"], "C08": ["Props/C08_Port.v"]}
    serves          list of property ids it contributes to
    gen_case(rng, tier, prop_id) -> dict (must contain "kind"; the composite adds "part")
    run_impl(case) -> obs
    agree_term(case, obs) -> str | None
    model_term(case) -> str | None
    monitor(case, obs, prop_id) -> [str]      only the clauses of property prop_id
    nontrivial(case, obs, prop_id) -> bool
    shrink(case) -> iterable
    describe(case, obs) -> [str]
    trusted_base / assumptions / partial      dict prop_id -> list[str]   (optional)
    nontrivial_rule                           dict prop_id -> str         (optional)
    pre_build(prop_id)                        optional: regenerate coq/Gen/*.v (translated leaf bodies) before the build
    weight                                    relative share of generated cases (default 1)

The same case stream serves every property the part contributes to; the monitor is selected by prop_id.
"""
import importlib

import os

from vlib.framework import Prop, COQ


def load_part(name):
    return importlib.import_module("props.part_" + name).PART


class Composite(Prop):
    def __init__(self, pid, part_names, extra_props_files=(), **kw):
        self.id = pid
        self.parts = {}
        self.missing_parts = []
        self.missing_files = []
        for n in part_names:
            try:
                p = load_part(n)
            except ModuleNotFoundError as e:
                if e.name != "props.part_" + n:
                    raise
                self.missing_parts.append(n)     # part not built yet
                continue
            except Exception as e:               # part under construction / broken: reported, never silent
                self.missing_parts.append(f"{n} (failed to load: {type(e).__name__}: {e})")
                continue
            if pid in getattr(p, "serves", [pid]):
                self.parts[p.name] = p
        files = list(extra_props_files)
        imports = []
        for p in self.parts.values():
            for f in p.props_files.get(pid, []):
                if not os.path.exists(os.path.join(COQ, f)):
                    self.missing_files.append(f)       # theorems of this part not written yet
                    continue
                if f not in files:
                    files.append(f)
            for l in p.coq_imports:
                if l not in imports:
                    imports.append(l)
        self.props_file = files
        self.coq_imports = imports
        self.trusted_base = self._collect("trusted_base")
        self.assumptions = self._collect("assumptions")
        self.partial = self._collect("partial")
        if self.missing_files:
            self.partial.append("theorem files not present yet: " + ", ".join(self.missing_files))
        if self.missing_parts:
            self.partial.append("element parts not built yet: " + ", ".join(self.missing_parts))
        rules = []
        for p in self.parts.values():
            r = getattr(p, "nontrivial_rule", {})
            r = r.get(pid) if isinstance(r, dict) else r
            if r:
                rules.append(f"[{p.name}] {r}")
        self.nontrivial_rule = " ".join(rules)
        for k, v in kw.items():
            setattr(self, k, v)

    def _collect(self, attr):
        out = []
        for p in self.parts.values():
            v = getattr(p, attr, {})
            v = v.get(self.id, []) if isinstance(v, dict) else v
            for x in v:
                if x not in out:
                    out.append(f"[{p.name}] {x}")
        return out

    def _part(self, case):
        return self.parts[case["part"]]

    def pre_build(self):
        """second tie: every part regenerates its coq/Gen/*.v from the tree under test (a part that raises fails closed)"""
        for p in self.parts.values():
            if hasattr(p, "pre_build"):
                p.pre_build(self.id)

    def gen_case(self, rng, tier):
        names = list(self.parts)
        weights = [getattr(self.parts[n], "weight", 1) for n in names]
        n = rng.choices(names, weights=weights)[0]
        c = self.parts[n].gen_case(rng, tier, self.id)
        c["part"] = n
        return c

    def run_impl(self, case):
        return self._part(case).run_impl(case)

    def agree_term(self, case, obs):
        return self._part(case).agree_term(case, obs)

    def case_imports(self, case):
        return self._part(case).coq_imports

    def model_term(self, case):
        return self._part(case).model_term(case)

    def monitor(self, case, obs):
        return self._part(case).monitor(case, obs, self.id)

    def nontrivial(self, case, obs):
        return self._part(case).nontrivial(case, obs, self.id)

    def shrink(self, case):
        for c in self._part(case).shrink(case):
            c["part"] = case["part"]
            yield c

    def describe(self, case, obs):
        return self._part(case).describe(case, obs)

    def signature(self, case, obs, msg):
        return msg.split(":")[0]
