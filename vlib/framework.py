"""Common check pipeline:  obligations (Coq build + Print Assumptions)  ->  cases on the real code
->  monitors  ->  correspondence (model evaluated inside Coq)  ->  search / shrink  ->  verdict, evidence.

A property plugin is a module  props/cNN.py  defining  PROP = SomeSubclassOf(Prop).
See DESIGN.md section 3 and 8 (plugin interface).
"""
import argparse
import fcntl
import glob
import hashlib
import importlib
import json
import multiprocessing as mp
import os
import random
import re
import shutil
import signal
import subprocess
import sys
import time
import traceback

VERIF = os.path.dirname(os.path.dirname(os.path.abspath(__file__)))
REPO = os.path.abspath(os.environ.get("VERIF_REPO", "/repo"))
COQ = os.path.join(VERIF, "coq")
WORK = os.path.join(VERIF, ".work")
# evidence of runs against a scratch copy of the repository (mutant rehearsal) must not overwrite the real evidence
EVID = os.path.join(VERIF, "evidence") if REPO == "/repo" else os.path.join(WORK, "alt-evidence")
REPLAYS = os.path.join(EVID, "replays")
KNOWN = os.path.join(VERIF, "known_findings.json")

HYGIENE = re.compile(
    r"\b(Admitted|admit|Axiom|Axioms|Parameter|Parameters|Conjecture|Conjectures|Abort All|give_up)\b"
    r"|Unset\s+Guard|bypass_check|type-in-type|impredicative-set|Admit\s+Obligations|Unset\s+Universe\s+Checking"
    r"|Unset\s+Positivity"
)

# axioms that the Coq standard library itself declares and that DESIGN.md section 5 names
STDLIB_AXIOMS_ALLOWED = {
    "functional_extensionality_dep",
    "FunctionalExtensionality.functional_extensionality_dep",
}


def use_repo():
    """make `import onl` resolve to the working tree under test"""
    if REPO not in sys.path[:1]:
        sys.path.insert(0, REPO)
    for m in list(sys.modules):
        if m == "onl" or m.startswith("onl."):
            f = getattr(sys.modules[m], "__file__", "") or ""
            if not f.startswith(REPO):
                del sys.modules[m]
    import onl  # noqa

    assert os.path.abspath(onl.__file__).startswith(REPO), (onl.__file__, REPO)


class CaseTimeout(BaseException):
    """raised by the per-case alarm; a BaseException so that `except Exception` in plugins or in the
    implementation does not take it for an implementation error"""


def _alarm(signum, frame):
    raise CaseTimeout()


class Prop:
    """Base class of a property plugin."""

    id = "C00"
    props_file = "Props/C00.v"       # relative to coq/
    coq_imports = []                 # lines put at the top of generated case files
    level = "proof"
    n_quick = 400
    n_thorough = 8000
    shard = 250                      # cases per generated .v file
    case_timeout = 20                # seconds per implementation run
    allowed_axioms = set()
    design_ref = "DESIGN.md section 4"
    trusted_base = []
    assumptions = []
    nontrivial_rule = ""
    partial = []                     # statements of the property not carried by a theorem

    # ---- to be provided by the plugin ---------------------------------------------------------
    def gen_case(self, rng, tier):
        raise NotImplementedError

    def run_impl(self, case):
        """run the real code on the case; return a JSON-serialisable canonical observation"""
        raise NotImplementedError

    def agree_term(self, case, obs):
        """Coq term of type bool: the model, run on `case`, behaves exactly as observed in `obs`.
        Return None when the case is outside the model's domain (then it is not compared)."""
        raise NotImplementedError

    def model_term(self, case):
        """Coq term whose vm_compute normal form shows the model's behaviour on `case` (diagnosis)"""
        return None

    def monitor(self, case, obs):
        """the property statement as an oracle over the implementation's observation;
        returns a list of messages, empty when the property holds on this run"""
        return []

    def nontrivial(self, case, obs):
        return True

    def shrink(self, case):
        """yield smaller variants of a case"""
        return []

    def signature(self, case, obs, msg):
        """stable identification of a violation, matched against known_findings.json"""
        return msg.split(":")[0]

    def describe(self, case, obs):
        """keys whose frequency is reported in the evidence (input distribution)"""
        return [case.get("kind", "case")] if isinstance(case, dict) else ["case"]

    def corpus_cases(self):
        out = []
        for f in sorted(glob.glob(os.path.join(VERIF, "corpus", self.id, "*.json"))):
            with open(f) as fh:
                d = json.load(fh)
            out.append(d["case"] if isinstance(d, dict) and "case" in d else d)
        return out

    def case_imports(self, case):
        """Coq import lines needed to evaluate this case's agree term (default: all of coq_imports)"""
        return self.coq_imports

    def pre_build(self):
        """regenerate translated definitions (Gen/*.v) from REPO before the Coq build; optional"""
        return None

    def extra_checks(self, rng, tier):
        """additional property-specific checks; returns (list of (case,obs,msg) violations, dict of stats)"""
        return [], {}


# ------------------------------------------------------------------------------------------------
# Coq side


class Lock:
    def __init__(self, name):
        os.makedirs(WORK, exist_ok=True)
        self.path = os.path.join(WORK, name)

    def __enter__(self):
        self.fh = open(self.path, "w")
        fcntl.flock(self.fh, fcntl.LOCK_EX)

    def __exit__(self, *a):
        fcntl.flock(self.fh, fcntl.LOCK_UN)
        self.fh.close()


def sh(cmd, timeout, cwd=None):
    try:
        p = subprocess.run(cmd, cwd=cwd, stdout=subprocess.PIPE, stderr=subprocess.STDOUT, timeout=timeout,
                           text=True, errors="replace")
        return p.returncode, p.stdout
    except subprocess.TimeoutExpired as e:
        out = e.stdout if isinstance(e.stdout, str) else (e.stdout or b"").decode("utf8", "replace")
        return 124, (out or "") + f"\nTIMEOUT after {timeout}s: {cmd}"


def coq_sources():
    return [f for f in glob.glob(os.path.join(COQ, "**", "*.v"), recursive=True) if "/Cases/" not in f]


def regen_coqproject():
    """_CoqProject lists every .v under coq/ (so a new file cannot be forgotten)"""
    files = sorted(os.path.relpath(f, COQ) for f in coq_sources())
    text = "-Q . ONL\n" + "\n".join(files) + "\n"
    p = os.path.join(COQ, "_CoqProject")
    old = open(p).read() if os.path.exists(p) else ""
    if old != text or not os.path.exists(os.path.join(COQ, "Makefile")):
        with open(p, "w") as fh:
            fh.write(text)
        rc, out = sh(["coq_makefile", "-f", "_CoqProject", "-o", "Makefile"], 120, cwd=COQ)
        if rc != 0:
            raise RuntimeError("coq_makefile failed:\n" + out)


def theorem_names(props_path):
    src = open(props_path).read()
    src_nc = re.sub(r"\(\*.*?\*\)", "", src, flags=re.S)
    names = re.findall(r"^\s*(?:Theorem|Lemma|Corollary)\s+([A-Za-z0-9_']+)", src_nc, flags=re.M)
    printed = re.findall(r"^\s*Print\s+Assumptions\s+([A-Za-z0-9_'.]+)\s*\.", src_nc, flags=re.M)
    return names, printed


def parse_assumptions(output, printed):
    """Print Assumptions prints, per command in order, either 'Closed under the global context'
    or a block starting 'Axioms:'."""
    blocks = []
    cur = None
    for line in output.splitlines():
        if line.startswith("Closed under the global context"):
            if cur is not None:
                blocks.append(cur)
                cur = None
            blocks.append([])
        elif line.startswith("Axioms:"):
            if cur is not None:
                blocks.append(cur)
            cur = []
        elif cur is not None:
            m = re.match(r"^([A-Za-z_][A-Za-z0-9_'.]*)\s*:", line)
            if m:
                cur.append(m.group(1))
            elif line.startswith(("COQC", "make", "File ")) or not line.strip():
                blocks.append(cur)
                cur = None
    if cur is not None:
        blocks.append(cur)
    res = {}
    for name, blk in zip(printed, blocks):
        res[name] = blk
    return res


def _props_files(prop):
    pf = prop.props_file
    return list(pf) if isinstance(pf, (list, tuple)) else [pf]


def _requires(path):
    """ONL modules a .v file requires (as relative paths)"""
    try:
        txt = re.sub(r"\(\*.*?\*\)", "", open(path).read(), flags=re.S)
    except OSError:
        return []
    out = []
    for m in re.finditer(r"From\s+ONL\s+Require\s+(?:Import|Export)\s+(.*?)\.(?=\s)", txt, flags=re.S):
        for mod in m.group(1).split():
            out.append(mod.replace(".", "/") + ".v")
    for m in re.finditer(r"Require\s+(?:Import|Export)\s+(.*?)\.(?=\s)", txt, flags=re.S):
        for mod in m.group(1).split():
            if mod.startswith("ONL."):
                out.append(mod[4:].replace(".", "/") + ".v")
    return out


def closure(files):
    """the .v files (relative to coq/) the given files depend on, themselves included"""
    seen, todo = set(), list(files)
    while todo:
        f = todo.pop()
        if f in seen:
            continue
        seen.add(f)
        todo.extend(_requires(os.path.join(COQ, f)))
    return sorted(seen)


def build_obligations(prop, thorough=False):
    """full .vo build of the closure of the property file(s); returns a dict describing what was discharged"""
    t0 = time.time()
    info = {"obligations": [], "discharged": [], "failed": [], "axioms": {}, "hygiene": [], "log_tail": "", "checker_cmd": ""}
    files = _props_files(prop)
    per_file = []
    for pf in files:
        props_path = os.path.join(COQ, pf)
        names, printed = theorem_names(props_path)
        per_file.append((pf, props_path, names, printed))
        info["obligations"] += names
    import_files = []
    for l in prop.coq_imports:
        m = re.match(r"\s*From\s+ONL\s+Require\s+(?:Import|Export)\s+(.*?)\.\s*$", l)
        if m:
            import_files += [x.replace(".", "/") + ".v" for x in m.group(1).split()]
    clo = closure(list(files) + import_files)
    info["closure_files"] = len(clo)
    # hygiene: on the closure of this property (models, proofs, statements)
    for f in clo:
        try:
            txt = re.sub(r"\(\*.*?\*\)", "", open(os.path.join(COQ, f)).read(), flags=re.S)
        except OSError:
            info["hygiene"].append(f"{f}: missing file")
            continue
        for m in HYGIENE.finditer(txt):
            info["hygiene"].append(f"{f}: {m.group(0)}")
    with Lock("coq.lock"):
        try:
            prop.pre_build()
        except Exception as e:  # translator failed closed
            info["failed"] = list(info["obligations"])
            info["log_tail"] = "pre_build (translator) failed: " + "".join(traceback.format_exception_only(type(e), e))
            info["wall_s"] = time.time() - t0
            return info
        regen_coqproject()
        # everything the statements and the case files need, in one make (full .vo build, keep going)
        targets = [f[:-2] + ".vo" for f in clo if f not in files]
        rc0, out = sh(["make", "-k", "-j16"] + targets, 2400, cwd=COQ) if targets else (0, "")
        if rc0 != 0:
            info["log_tail"] = out[-3000:]
            info["model_build_errors"] = re.findall(r'File "\./([^"]+)", line (\d+)', out)[:5]
    # the statement files themselves: always recompiled, one coqc each, output captured separately
    from concurrent.futures import ThreadPoolExecutor

    def compile_props(item):
        pf, props_path, names, printed = item
        rc1, out1 = sh(["coqc", "-Q", ".", "ONL", pf], 1500, cwd=COQ)
        if thorough and rc1 == 0:
            rc2, out2 = sh(["coqchk", "-silent", "-o", "-Q", ".", "ONL", "ONL." + pf[:-2].replace("/", ".")], 2400, cwd=COQ)
            return rc1, out1, rc2, out2
        return rc1, out1, None, ""
    with ThreadPoolExecutor(max_workers=8) as ex:
        results = list(ex.map(compile_props, per_file))
    for (pf, props_path, names, printed), (rc1, out1, rc2, out2) in zip(per_file, results):
        info["log_tail"] = (info["log_tail"] + out1[-1500:])[-4000:]
        if rc2 is not None:
            info["coqchk_rc"] = max(rc2, info.get("coqchk_rc", 0))
            info["coqchk_tail"] = out2[-3000:]
            if rc2 != 0:
                rc1 = rc2
                info["log_tail"] += "\ncoqchk failed:\n" + out2[-3000:]
        if rc1 != 0:
            info["failed"] += names
            m = re.search(r'File "\./([^"]+)", line (\d+)', out1)
            if m:
                info["broken_at"] = f"{m.group(1)}:{m.group(2)}"
            continue
        ax = parse_assumptions(out1, printed)
        info["axioms"].update(ax)
        for n in names:
            if n not in printed or n not in ax:
                info["failed"].append(n)
                continue
            bad = [a for a in ax[n] if a not in STDLIB_AXIOMS_ALLOWED and a not in prop.allowed_axioms]
            if bad:
                info["failed"].append(n)
            else:
                info["discharged"].append(n)
    info["checker_cmd"] = (f"cd {COQ} && coq_makefile -f _CoqProject -o Makefile && make -k -j16 <closure of the statement files: "
                           f"{len(clo)} files> && coqc -Q . ONL " + " ".join(files) +
                           "   (coqc 8.16.1, full .vo build; Print Assumptions under every theorem" +
                           ("; coqchk -o on each statement file's closure" if thorough else "") + ")")
    if info["hygiene"]:
        info["failed"] = list(info["obligations"])
        info["discharged"] = []
    info["wall_s"] = round(time.time() - t0, 2)
    return info


def run_coq_file(path, timeout=900):
    rc, out = sh(["coqc", "-Q", COQ, "ONL", path], timeout, cwd=os.path.dirname(path))
    return rc, out


def eval_agree(prop, items, workdir, tag="cases"):
    """items: list of (index, term) or (index, term, imports).  Returns (set of indices whose term is not
    `true`, errors).  Cases are grouped by the import lines they need, so a part whose model does not
    compile cannot take the other parts' cases down with it."""
    os.makedirs(workdir, exist_ok=True)
    groups = {}
    for it in items:
        imps = tuple(it[2]) if len(it) > 2 else tuple(prop.coq_imports)
        groups.setdefault(imps, []).append((it[0], it[1]))
    shards = []
    for imps, its in groups.items():
        for i in range(0, len(its), prop.shard):
            shards.append((imps, its[i:i + prop.shard]))
    files = []
    for k, (imps, sh_items) in enumerate(shards):
        p = os.path.join(workdir, f"{tag}_{k}.v")
        with open(p, "w") as fh:
            fh.write("From Coq Require Import ZArith QArith List Bool String.\nImport ListNotations.\n")
            for l in imps:
                fh.write(l + "\n")
            fh.write("Open Scope Z_scope.\n")
            for (i, term) in sh_items:
                fh.write(f"Definition c{i} : bool := {term}.\n")
            fh.write("Definition all_cases : list (nat * bool) := [" +
                     "; ".join(f"({j}%nat, c{i})" for j, (i, _) in enumerate(sh_items)) + "].\n")
            fh.write("Eval vm_compute in (map fst (filter (fun x => negb (snd x)) all_cases)).\n")
        files.append((p, sh_items))
    bad, errors = set(), []
    from concurrent.futures import ThreadPoolExecutor
    with ThreadPoolExecutor(max_workers=12) as ex:
        results = list(ex.map(lambda f: run_coq_file(f[0]), files))
    for (p, sh_items), (rc, out) in zip(files, results):
        if rc != 0:
            errors.append(f"{os.path.basename(p)}: rc={rc}\n" + out[-1500:])
            bad.update(i for i, _ in sh_items)   # not evaluated => not shown to agree
            continue
        m = re.search(r"=\s*(\[.*?\])\s*:\s*list nat", out, flags=re.S)
        if not m:
            errors.append(f"{os.path.basename(p)}: cannot parse output\n" + out[-1500:])
            bad.update(i for i, _ in sh_items)
            continue
        for j in re.findall(r"\d+", m.group(1)):
            bad.add(sh_items[int(j)][0])
    return bad, errors


def eval_model(prop, case, workdir):
    term = None
    try:
        term = prop.model_term(case)
    except Exception:
        return "model_term raised: " + traceback.format_exc()
    if term is None:
        return None
    os.makedirs(workdir, exist_ok=True)
    p = os.path.join(workdir, "model_out.v")
    with open(p, "w") as fh:
        fh.write("From Coq Require Import ZArith QArith List Bool String.\nImport ListNotations.\n")
        for l in prop.case_imports(case):
            fh.write(l + "\n")
        fh.write("Open Scope Z_scope.\n")
        fh.write(f"Eval vm_compute in ({term}).\n")
    rc, out = run_coq_file(p, 300)
    return out[-6000:]


# ------------------------------------------------------------------------------------------------
# implementation side

_PLUGIN = None


def load_plugin(pid):
    sys.path.insert(0, VERIF)
    mod = importlib.import_module("props." + pid.lower())
    return mod.PROP


def _impl_one(prop, case):
    signal.signal(signal.SIGALRM, _alarm)
    # the alarm repeats every second after the first expiry: the kernel under test turns an exception raised
    # inside a process into a failed event, so one delivery can be swallowed by a looping implementation
    signal.setitimer(signal.ITIMER_REAL, prop.case_timeout, 1.0)
    try:
        return prop.run_impl(case)
    except CaseTimeout:
        return {"harness_error": "timeout", "detail": f"implementation run exceeded {prop.case_timeout}s"}
    except BaseException as e:  # the harness itself failed; implementation exceptions are caught by plugins
        return {"harness_error": type(e).__name__, "detail": traceback.format_exc()[-2000:]}
    finally:
        signal.setitimer(signal.ITIMER_REAL, 0)


def _worker_init(pid):
    global _PLUGIN
    use_repo()
    _PLUGIN = load_plugin(pid)


def _worker(case):
    try:
        return _impl_one(_PLUGIN, case)
    except CaseTimeout:  # a repeat of the alarm delivered while _impl_one was returning
        signal.setitimer(signal.ITIMER_REAL, 0)
        return {"harness_error": "timeout", "detail": "implementation run exceeded the case timeout"}


def run_impl_many(prop, cases, procs=14):
    if len(cases) <= 8:
        use_repo()
        return [_impl_one(prop, c) for c in cases]
    ctx = mp.get_context("fork")
    with ctx.Pool(min(procs, max(1, len(cases) // 4)), initializer=_worker_init, initargs=(prop.id,)) as pool:
        return pool.map(_worker, cases, chunksize=max(1, len(cases) // 64))


def case_hash(case):
    return hashlib.sha1(json.dumps(case, sort_keys=True, default=str).encode()).hexdigest()[:12]


def load_known():
    if not os.path.exists(KNOWN):
        return []
    with open(KNOWN) as fh:
        return json.load(fh).get("findings", [])


SHRINK_TOTAL_SECONDS = 150   # all shrinks of one check together
_SHRINK_SPENT = 0.0
SHRINK_SECONDS = 45          # wall-clock budget of one shrink (slow or hanging candidates must not stall a check)


def greedy_shrink(prop, case, still_fails, budget=400, seconds=None):
    """generic greedy shrinking with the plugin's candidate generator, bounded in candidates and in time"""
    global _SHRINK_SPENT
    cur = case
    improved = True
    n = 0
    left = max(0.0, SHRINK_TOTAL_SECONDS - _SHRINK_SPENT)
    t_start = time.time()
    deadline = t_start + min(SHRINK_SECONDS if seconds is None else seconds, left)
    while improved and n < budget and time.time() < deadline:
        improved = False
        for cand in prop.shrink(cur):
            n += 1
            if n >= budget or time.time() >= deadline:
                break
            try:
                if still_fails(cand):
                    cur = cand
                    improved = True
                    break
            except Exception:
                continue
    _SHRINK_SPENT += time.time() - t_start
    return cur


def write_replay(prop, kind, payload):
    os.makedirs(REPLAYS, exist_ok=True)
    h = hashlib.sha1(json.dumps(payload, sort_keys=True, default=str).encode()).hexdigest()[:10]
    p = os.path.join(REPLAYS, f"{prop.id}-{kind}-{h}.json")
    payload = dict(payload)
    payload["property"] = prop.id
    payload["kind"] = kind
    payload["repo"] = REPO
    with open(p, "w") as fh:
        json.dump(payload, fh, indent=1, default=str)
    return p


# ------------------------------------------------------------------------------------------------


def main(argv=None):
    ap = argparse.ArgumentParser()
    ap.add_argument("prop")
    ap.add_argument("--tier", default=os.environ.get("VERIF_TIER", "quick"), choices=["quick", "thorough"])
    ap.add_argument("--seed", type=int, default=int(os.environ.get("VERIF_SEED", "20260928")))
    ap.add_argument("--n", type=int, default=None)
    ap.add_argument("--replay", default=None)
    ap.add_argument("--no-build", action="store_true", help="developer option: skip the Coq obligations")
    args = ap.parse_args(argv)
    t0 = time.time()
    use_repo()
    prop = load_plugin(args.prop)
    workdir = os.path.join(WORK, f"{prop.id}-{os.getpid()}")
    os.makedirs(workdir, exist_ok=True)
    try:
        if args.replay:
            return replay(prop, args.replay, workdir)
        return check(prop, args, workdir, t0)
    finally:
        shutil.rmtree(workdir, ignore_errors=True)


def replay(prop, path, workdir):
    with open(path) as fh:
        d = json.load(fh)
    case = d["case"] if "case" in d else d
    if case is None:
        print(json.dumps(d, indent=1))
        print("this replay names a proof obligation / correspondence that no longer checks; no failing input was found")
        return 1
    obs = _impl_one(prop, case)
    msgs = prop.monitor(case, obs) if "harness_error" not in obs else ["harness: " + obs["harness_error"]]
    print("case:", json.dumps(case, default=str))
    print("implementation observation:", json.dumps(obs, default=str))
    print("monitor:", msgs if msgs else "property holds on this run")
    try:
        term = prop.agree_term(case, obs)
    except Exception:
        term = None
    if term is not None:
        bad, errors = eval_agree(prop, [(0, term, tuple(prop.case_imports(case)))], workdir, "replay")
        print("model agrees with implementation:", not bad, *errors)
        mo = eval_model(prop, case, workdir)
        if mo:
            print("model output:\n" + mo)
    return 1 if msgs else 0


def check(prop, args, workdir, t0):
    tier = args.tier
    rng = random.Random(args.seed)
    n = args.n if args.n is not None else (prop.n_quick if tier == "quick" else prop.n_thorough)
    known = [k for k in load_known() if k.get("property") == prop.id]
    known_sigs = {k["signature"]: k for k in known if k.get("status") == "known"}
    report = []           # (signature, message, replay path, known?)
    lines = []

    # 1. obligations
    if args.no_build:
        ob = {"obligations": [], "discharged": [], "failed": [], "axioms": {}, "hygiene": [], "checker_cmd": "skipped", "log_tail": ""}
    else:
        ob = build_obligations(prop, thorough=(tier == "thorough"))

    # 2. cases on the real code: corpus first, then generated
    corpus = prop.corpus_cases()
    gen = []
    for _ in range(n):
        gen.append(prop.gen_case(rng, tier))
    cases = corpus + gen
    obs = run_impl_many(prop, cases)
    harness_errors = [(c, o) for c, o in zip(cases, obs) if isinstance(o, dict) and "harness_error" in o]

    # 3. monitors
    mon_fail = []
    for c, o in zip(cases, obs):
        if isinstance(o, dict) and "harness_error" in o:
            continue
        try:
            msgs = prop.monitor(c, o)
        except Exception:
            msgs = ["monitor-crashed: " + traceback.format_exc()[-800:]]
        for m in msgs:
            mon_fail.append((c, o, m))
    extra_v, extra_stats = prop.extra_checks(rng, tier)
    mon_fail.extend(extra_v)

    # 4. correspondence
    items, skipped = [], 0
    for i, (c, o) in enumerate(zip(cases, obs)):
        if isinstance(o, dict) and "harness_error" in o:
            continue
        try:
            t = prop.agree_term(c, o)
        except Exception:
            t = "false (* agree_term raised: %s *)" % traceback.format_exc()[-300:].replace("*)", "* )").replace("(*", "( *")
        if t is None:
            skipped += 1
        else:
            items.append((i, t, tuple(prop.case_imports(c))))
    if args.no_build and not os.path.exists(os.path.join(COQ, _props_files(prop)[0][:-2] + ".vo")):
        bad, cerrors = set(), ["model not built"]
    else:
        bad, cerrors = eval_agree(prop, items, workdir) if items else (set(), [])

    # 5. verdict
    def report_violation(sig, msg, payload, kind):
        if sig in known_sigs:
            lines.append(f"KNOWN-FINDING: property={prop.id} {known_sigs[sig].get('what', sig)} [{sig}]")
            report.append((sig, msg, None, True))
            return
        if any(r[0] == sig and not r[3] for r in report):
            return
        p = write_replay(prop, kind, payload)
        report.append((sig, msg, p, False))

    # 5a. monitor failures on the real code: shrink, report with the failing input as replay
    seen_sigs = set()
    for (c, o, m) in mon_fail:
        sig0 = prop.signature(c, o, m)
        if sig0 in seen_sigs:
            continue
        seen_sigs.add(sig0)

        def still(cand, sig0=sig0):
            oo = _impl_one(prop, cand)
            if "harness_error" in oo:
                return False
            return any(prop.signature(cand, oo, mm) == sig0 for mm in prop.monitor(cand, oo))
        small = greedy_shrink(prop, c, still) if not c.get("_noshrink") else c
        so = _impl_one(prop, small)
        smsgs = [mm for mm in prop.monitor(small, so) if prop.signature(small, so, mm) == sig0] or [m]
        report_violation(sig0, smsgs[0], {"case": small, "impl_obs": so, "messages": smsgs,
                                           "note": "property monitor fails on the real code for this input"}, "monitor")

    # 5b. broken obligation or correspondence: search for a failing input, else no-failing-input-found
    broken = []
    if ob["failed"] or ob["hygiene"]:
        broken.append(("obligation", f"theorems no longer checked: {ob['failed']} {ob.get('broken_at', '')} hygiene={ob['hygiene']}"))
    if bad or cerrors:
        broken.append(("correspondence", f"{len(bad)} of {len(items)} cases: model and implementation differ"))
    if harness_errors:
        broken.append(("harness", f"{len(harness_errors)} implementation runs could not be observed: "
                       + str(harness_errors[0][1].get("harness_error")) + " " + str(harness_errors[0][1].get("detail"))[-600:]))
    search_stats = {}
    if broken:
        found_before = sum(1 for r in report if not r[3])
        # shrink a disagreeing case (diagnosis) and look for a property failure around it
        dis_case = None
        if bad:
            i0 = sorted(bad)[0]
            dis_case = cases[i0]

            def still_dis(cand):
                oo = _impl_one(prop, cand)
                if "harness_error" in oo:
                    return False
                t = prop.agree_term(cand, oo)
                if t is None:
                    return False
                b2, e2 = eval_agree(prop, [(0, t, tuple(prop.case_imports(cand)))], os.path.join(workdir, "shr"), "shr")
                return bool(b2) and not e2
            if not cerrors and len(bad) < len(items):
                try:
                    dis_case = greedy_shrink(prop, dis_case, still_dis, budget=60)
                except Exception:
                    pass
        # search: 10x volume through the monitor on the real code
        extra_n = min(10 * max(n, 100), 20000)
        rng2 = random.Random(args.seed + 1)
        extra = [prop.gen_case(rng2, tier) for _ in range(extra_n)]
        if dis_case is not None:
            extra = [dis_case] + list(prop.shrink(dis_case))[:200] + extra
        eobs = run_impl_many(prop, extra)
        search_stats = {"search_cases": len(extra)}
        for c, o in zip(extra, eobs):
            if "harness_error" in o:
                continue
            for m in prop.monitor(c, o):
                sig0 = prop.signature(c, o, m)
                if sig0 in seen_sigs:
                    continue
                seen_sigs.add(sig0)

                def still(cand, sig0=sig0):
                    oo = _impl_one(prop, cand)
                    return "harness_error" not in oo and any(prop.signature(cand, oo, mm) == sig0 for mm in prop.monitor(cand, oo))
                small = greedy_shrink(prop, c, still)
                so = _impl_one(prop, small)
                smsgs = [mm for mm in prop.monitor(small, so) if prop.signature(small, so, mm) == sig0] or [m]
                report_violation(sig0, smsgs[0], {"case": small, "impl_obs": so, "messages": smsgs,
                                                   "note": "found by the search after " + broken[0][0] + " broke"}, "monitor")
        found_after = sum(1 for r in report if not r[3])
        if found_after == 0:
            payload = {"case": dis_case, "broken": broken, "failed_theorems": ob["failed"], "hygiene": ob["hygiene"],
                       "coq_log_tail": ob["log_tail"][-2500:], "correspondence_errors": cerrors[:3],
                       "note": "the property is no longer shown to hold: " + "; ".join(b[1] for b in broken)}
            if dis_case is not None:
                payload["impl_obs"] = _impl_one(prop, dis_case)
                payload["model_output"] = eval_model(prop, dis_case, workdir)
            p = write_replay(prop, "unproved", payload)
            report.append(("no-failing-input-found", broken[0][1], p, False))

    # 6. evidence
    nontriv = set()
    hist = {}
    for c, o in zip(cases, obs):
        if isinstance(o, dict) and "harness_error" in o:
            continue
        try:
            for k in prop.describe(c, o):
                hist[k] = hist.get(k, 0) + 1
            if prop.nontrivial(c, o):
                nontriv.add(case_hash(c))
        except Exception:
            pass
    samples = []
    for c, o in list(zip(cases, obs))[len(corpus):len(corpus) + 3]:
        samples.append({"case": c, "implementation_observation": o})
    for nme in ob["discharged"][:3]:
        samples.append({"obligation": nme, "axioms": ob["axioms"].get(nme, [])})
    violations = [r for r in report if not r[3]]
    ev = {
        "property_id": prop.id, "tier": tier, "seed": args.seed, "level": prop.level,
        "coverage": {
            "obligations": len(ob["obligations"]), "discharged": len(ob["discharged"]),
            "obligation_names": ob["obligations"], "undischarged": ob["failed"],
            "axioms_per_theorem": ob["axioms"],
            "checker_cmd": ob.get("checker_cmd", ""),
            "trusted_base": ["Coq 8.16.1 kernel (coqc full .vo build; vm_compute for the correspondence; no native_compute)",
                             "hand-written Gallina model tied to the code by the correspondence check of this run",
                             "Python harness (drivers, canonicalisation, Coq term printer vlib/coqfmt.py)"] + list(prop.trusted_base),
            "evaluations": len(cases), "corpus_cases": len(corpus),
            "distinct_nontrivial": len(nontriv),
            "rule": prop.nontrivial_rule,
            "traces_validated_against_impl": len(items) - len(bad),
            "correspondence_cases": len(items), "correspondence_disagreements": len(bad),
            "correspondence_skipped_outside_model_domain": skipped,
            "correspondence_errors": cerrors[:2],
            "monitor_failures": len(mon_fail),
            "input_distribution": dict(sorted(hist.items())),
            "samples": samples,
            "partial": list(prop.partial),
            "known_findings_listed": [k["signature"] for k in known if k.get("status") == "known"],
            "repo": REPO,
            "build_wall_s": ob.get("wall_s"),
        },
        "assumptions": list(prop.assumptions),
        "wall_s": round(time.time() - t0, 2),
        "violations": len(violations),
    }
    if tier == "thorough":
        ev["coverage"]["coqchk_rc"] = ob.get("coqchk_rc")
        ev["coverage"]["coqchk_tail"] = ob.get("coqchk_tail", "")[-1500:]
    ev["coverage"].update(extra_stats)
    ev["coverage"].update(search_stats)
    if prop.level != "proof":
        ev["coverage"]["explanation"] = getattr(prop, "explanation", "")
    os.makedirs(EVID, exist_ok=True)
    with open(os.path.join(EVID, prop.id + ".json"), "w") as fh:
        json.dump(ev, fh, indent=1, default=str)

    for l in sorted(set(lines)):
        print(l)
    print(f"{prop.id} tier={tier} seed={args.seed} obligations={len(ob['discharged'])}/{len(ob['obligations'])} "
          f"cases={len(cases)} nontrivial={len(nontriv)} correspondence={len(items) - len(bad)}/{len(items)} "
          f"monitor_failures={len(mon_fail)} wall={ev['wall_s']}s")
    for (sig, msg, p, isknown) in report:
        if isknown:
            continue
        tail = " no-failing-input-found" if sig == "no-failing-input-found" else ""
        print(f"  {sig}: {msg[:300]}")
        print(f"VIOLATION property={prop.id} replay={p}{tail}")
    return 1 if violations else 0


if __name__ == "__main__":
    sys.exit(main())
