"""Fail-closed translator of GENERATOR bodies (process `run()` methods) to resumable automata in Gallina.

vlib/translate.py translates leaf bodies (no yield).  This module adds the control-flow splitting that a process
body needs and reuses translate.FxTr for everything else (expressions, conditions, Python's None, observations,
effects, draws, inlined helpers, joined ifs -- the same per-function tables, see the long comment in translate.py).

A process body such as

    def run(self, env):
        while True:
            packet = yield self.store.get()          # program point 1
            self.busy = 1
            if self.rate > 0:
                yield env.timeout(packet.size * 8 / self.rate)     # program point 2
            self.byte_size -= packet.size
            ...

is cut at its PROGRAM POINTS: 0 = entry, then every `yield <request>` and every listed call-out, numbered in source
order.  For each program point k that is reachable from the entry one definition is generated,

    gen_<Class>_<method>_from_<k> (s : <record>) (<frame of k>) (<observations>) (<draws>)
        : <record> * list <effect> * <next>

which runs the code from k to the NEXT program point -- through ifs, out of and around loops (`while` back-edges,
break / continue), to the end of the function -- and returns the state fields as they are then, the effects in
program order, and what the process does next:

    NxYield (r : <req>) (k' : <pp>)    the process yields request r (a listed request pattern, its arguments
                                       translated: `RqTimeout d` carries the delay EXPRESSION) and will resume at k'
    NxCall (c : <call>) (k' : <pp>)    the process calls listed foreign code c synchronously (a callback that may call
                                       back into this object and change its fields) and goes on at k' with whatever
                                       state that call left
    NxExit                             the generator returns (falls off its end / `return`)
    NxRaise (e : <exn>)                the generator raises: a failed `assert` (ExAssert) or a listed `raise`

<pp> has one constructor per program point carrying that point's FRAME: the numeric locals that are defined on
every path to the point and mentioned after it (computed as a fixpoint; a local that is used after a point without
being in its frame is Unsupported).  A path from one point must reach a program point or the end before it re-enters
a loop it already entered (an iteration without a yield would not terminate here): Unsupported otherwise.

For every program point inside `try: ... except <Interrupt> [as _]: <handler>` (spec.interrupt names the exception
class) a second definition gen_..._from_<k>_intr is generated: the process is resumed by THROWING that exception into
the generator at k, i.e. the handler runs, then what follows the try statement.

Additional tables (all explicit; what is in no table is Unsupported, the caller fails closed):

  requests [(python expression with holes, constructor, [hole types], resume)]
           the operand of a `yield`, matched structurally; resume = None: the yield is a statement; "obj": the yield is
           `x = yield ...` and x (one of `objects`) is bound to the object the kernel resumes the process with
  callouts [(python statement with holes, constructor, [hole types])]
           statement-level calls into foreign code that may re-enter this object: a program point; state fields are
           re-read from the state parameter afterwards (nothing read before the call is trusted after it)
  raises   [(python statement, constructor)]    listed `raise ...` statements
  objects  [name]     locals that hold opaque objects (a packet).  They are bound only by `x = yield <request>`, are
           mentioned only inside listed observation / effect patterns (`packet.size`, `self.out.put(packet)`), and every
           such mention is checked to be on a path where the name is bound (in the frame or bound since)
  binds    {effect constructor: object local}    the listed effect is an assignment that CREATES the object
           (`packet = Packet(env.now, self.size_dist(), self.packets_send, ..)` with holes for the arguments): afterwards the
           local is bound.  A listed draw inside an argument of an effect or of a request (`env.timeout(self.arrival_dist())`)
           is consumed before it
  param_objects [name]    parameters of the generator that hold objects (`send_packet(self, packet)`): bound at entry
  sees     {effect constructor: [state attr | python expression]}    the constructor additionally carries the CURRENT values
           of these state fields (or expressions over them, `self.queue_count[packet.flow_id]`) at the moment of the effect: what the callee could observe of this object while it is being called
           (`self.out.put(packet)` while busy = 1 and byte_size already decremented)
  draws    as in translate.py; additionally a listed draw may occur INSIDE the test of an `if`
           (`if not self.loss_rate or random.uniform(0, 1) >= self.loss_rate`): the test is split along and / or / not
           following Python's short-circuit order, so that the draw is consumed exactly on the paths on which Python
           evaluates it
  inline   as in translate.py, and arguments may be arbitrary translatable expressions (`self._arm(self.timeout)`): the
           callee's parameter is a local of the inlined body

The translator and the tables are in the trusted base of the properties that use them.
"""
import ast

from vlib.translate import (Unsupported, FnSpec, FxTr, V, COQ_TY, HEADER, _parse_expr, _parse_stmt, _match, _ind,
                            find_method, write_if_changed)


class _Back(ast.stmt):
    """continuation marker: the back-edge of `while` statement .loop (re-test the condition)"""
    _fields = ()

    def __init__(self, loop):
        super().__init__()
        self.loop = loop


class _EndTry(ast.stmt):
    """continuation marker: the end of the body of try statement .node"""
    _fields = ()

    def __init__(self, node):
        super().__init__()
        self.node = node


class _RaiseMark(ast.stmt):
    """the generator raises exception constructor .con"""
    _fields = ()

    def __init__(self, con):
        super().__init__()
        self.con = con


class _ForBack(ast.stmt):
    """continuation marker: the end of one iteration of `for` statement .node (take the next element)"""
    _fields = ()

    def __init__(self, node):
        super().__init__()
        self.node = node


COQ_TY.setdefault("keysZ", "Z -> bool")       # the key set of a dict with integer keys, as its membership function


class _LoopHead(ast.stmt):
    """continuation marker: the head of pass loop .loop (a program point: test the condition now)"""
    _fields = ()

    def __init__(self, loop):
        super().__init__()
        self.loop = loop


def _cty(ty):
    """Coq type of a frame / parameter type tag"""
    if ty.startswith("list:"):
        return f"list {ty[5:]}"
    if ty == "objidx":
        return "Z"
    return COQ_TY[ty]


class GenSpec(FnSpec):
    def __init__(self, path, cls, method, name, requests=(), callouts=(), raises=(), objects=(), sees=None, interrupt=None,
                 binds=None, param_objects=(), iterables=(), idx_aliases=(), idx_reads=(), spin=False, len_effects=None, thread_loops=False, pass_loops=(),
                 key_effects=None, binds_idx=None, demote=(), **kw):
        for bad in ("select", "guards", "aliases", "decorator", "ret"):
            if bad in kw:
                raise ValueError(f"GenSpec: {bad} is not supported for generator bodies")
        super().__init__(path, cls, method, name, **kw)
        self.requests = [tuple(r) for r in requests]
        self.callouts = [tuple(c) for c in callouts]
        self.raises = [tuple(r) for r in raises]
        self.objects = list(objects)
        self.sees = dict(sees or {})
        self.binds = dict(binds or {})
        self.param_objects = list(param_objects)      # parameters of the generator that hold objects (bound at entry)
        self.iterables = [tuple(x) for x in iterables]
        self.idx_aliases = [tuple(x) for x in idx_aliases]
        self.idx_reads = [tuple(x) for x in idx_reads]
        self.spin = spin
        # {len-observation parameter: {effect constructor: +1 / -1}}: the collection behind a "len" observation is changed by
        # listed effects (`self.active_set.remove(c)`); a read after such an effect is the parameter (the length when the
        # process resumed) plus the changes made on this path.  remove() of an absent element raises in Python: the bridge
        # states membership.
        self.len_effects = {p: dict(m) for p, m in (len_effects or {}).items()}
        # thread_loops: a for-loop over a listed table becomes ONE separate definition gen_.._loop<n> (params) : list -> state ->
        #   list fx -> result, a structural fix that takes the state record and the effects so far as arguments, so that
        #   iterations which reach no yield may change state and have effects; program points call it with the rest of the table
        # pass_loops [python test]: a `while <test>:` that can go around several times without yielding: its head is a program
        #   point reached with NxAgain (no kernel step in between): ONE pass is generated, whoever uses it iterates
        # key_effects {effect constructor: (keysZ state attr, True|False)}: the effect adds / deletes the key given by its
        #   first hole; `k in self.attr` / `k not in self.attr` read the key set as changed so far on the path
        # binds_idx {effect constructor: object local}: the creating effect binds an INDEXED object (index = first hole)
        # demote [object local]: an indexed object that lives across a yield is a plain object afterwards
        self.thread_loops, self.pass_loops = thread_loops, list(pass_loops)
        self.key_effects, self.binds_idx, self.demote = dict(key_effects or {}), dict(binds_idx or {}), list(demote)
        self.interrupt = interrupt


def _yield_of(s):
    """(target name | None, request expression) if s is `yield e` / `x = yield e` / `x: T = yield e`, else None"""
    if isinstance(s, ast.Expr) and isinstance(s.value, ast.Yield):
        return (None, s.value.value)
    if isinstance(s, ast.Assign) and isinstance(s.value, ast.Yield):
        if len(s.targets) != 1 or not isinstance(s.targets[0], ast.Name):
            raise Unsupported("the value of a yield is assigned to something other than one local name")
        return (s.targets[0].id, s.value.value)
    if isinstance(s, ast.AnnAssign) and isinstance(s.value, ast.Yield):
        if not isinstance(s.target, ast.Name):
            raise Unsupported("the value of a yield is assigned to something other than one local name")
        return (s.target.id, s.value.value)
    return None


def _has_yield(node):
    return any(isinstance(n, (ast.Yield, ast.YieldFrom, ast.Await)) for n in ast.walk(node))


class GenTr(FxTr):
    def __init__(self, spec, state, record, prefix, effect_type, f):
        super().__init__(spec, state, record, prefix, effect_type)
        self.f = f
        self.requests = [(_parse_expr(r[0]), r[1], r[2], r[3], (r[4] if len(r) > 4 else None)) for r in spec.requests]
        self.callouts = [(_parse_stmt(src), con, tys) for (src, con, tys) in spec.callouts]
        self.raises = [(_parse_stmt(src), con) for (src, con) in spec.raises]
        self.iterables = [(_parse_expr(src), param, tys) for (src, param, tys) in spec.iterables]
        self.idx_aliases = [(_parse_stmt(src), name, ty) for (src, name, ty) in spec.idx_aliases]
        self.idx_reads = [(ast.dump(_parse_expr(src)), obj, param, ty) for (src, obj, param, ty) in spec.idx_reads]
        fors = sorted([n for n in ast.walk(f) if isinstance(n, ast.For)], key=lambda n: (n.lineno, n.col_offset))
        self.for_index = {id(n): i + 1 for i, n in enumerate(fors)}
        used = {n.id for n in ast.walk(f) if isinstance(n, ast.Name)}
        if any(self.hidden(n) in used for n in fors):
            raise Unsupported("a local is named like the hidden rest-of-table variable of a for loop")
        # program points: every yield statement and every listed call-out of the method, in source order
        pts = []
        for n in ast.walk(f):
            if isinstance(n, ast.stmt) and not isinstance(n, (ast.FunctionDef, ast.AsyncFunctionDef)):
                if (isinstance(n, (ast.Expr, ast.Assign, ast.AnnAssign)) and isinstance(getattr(n, "value", None), ast.Yield)) \
                        or self.callout_of(n) is not None:
                    pts.append(n)
        self.pass_tests = [ast.dump(_parse_expr(t)) for t in spec.pass_loops]
        for n in ast.walk(f):
            if isinstance(n, ast.While) and ast.dump(n.test) in self.pass_tests:
                pts.append(n)
        pts.sort(key=lambda n: (n.lineno, n.col_offset))
        self.point = {id(n): i + 1 for i, n in enumerate(pts)}
        self.point_node = {i + 1: n for i, n in enumerate(pts)}
        self.konts = {0: list(f.body)}       # program point -> the statements that follow it (explicit continuation)
        self.frames = {0: {}}                 # program point -> {local name: type}  ("obj" for opaque objects)
        self.dirty = False
        self.final_pass = False
        self.loopdefs = {}                    # for statement -> (name, text) of its separate definition (thread_loops)
        self.param_names = []                 # names of the observation parameters, in signature order

    # ---- environment ------------------------------------------------------------------------------------------
    def env0(self):
        env = super().env0()
        env["unrolled"] = frozenset()
        env["wsnap"] = {}          # while statement -> environment at its first entry on this path
        env["forfix"] = {}         # for statement -> (name of the enclosing generated fix, environment at its creation)
        env["lendelta"] = {}       # len-observation parameter -> change made by effects on this path
        return env

    @staticmethod
    def copy(env):
        env2 = FxTr.copy(env)
        env2["unrolled"] = env["unrolled"]
        env2["wsnap"] = dict(env["wsnap"])
        env2["forfix"] = dict(env["forfix"])
        env2["lendelta"] = dict(env["lendelta"])
        return env2

    def hidden(self, node):
        return f"for{self.for_index[id(node)]}_rest"

    def snapshot(self, env):
        return ({key: v.term for key, v in env["vars"].items()}, self.fx_term(env["fx"]) + repr(sorted(env["lendelta"].items())),
                frozenset(env["drawn"]))

    def unchanged(self, env, snap, ignore=()):
        """nothing the code can observe differs from the snapshot (locals assigned since, and the locals in `ignore`, do
        not count)"""
        vars0, fx0, drawn0 = snap
        return (all(key in env["vars"] and env["vars"][key].term == t for key, t in vars0.items()
                    if not (key[0] == "local" and key[1] in ignore))
                and self.fx_term(env["fx"]) + repr(sorted(env["lendelta"].items())) == fx0 and frozenset(env["drawn"]) == drawn0)

    def loop_locals(self, node, rest):
        """the locals an iteration of `for` statement node (re)binds: targets, the hidden rest, everything assigned in the
        body.  None of them may be read before it is written by an iteration or after the loop (the generated fix closes over
        the values at loop entry): Unsupported otherwise"""
        hid = {self.hidden(n) for n in ast.walk(node) if isinstance(n, ast.For)}      # its own and those of nested loops
        bound = set(hid)
        for n in ast.walk(node):
            if isinstance(n, ast.Name) and isinstance(n.ctx, ast.Store):
                bound.add(n.id)
        carried = (bound - hid) & self.names_after([node] + list(rest))
        if carried:
            raise Unsupported(f"the for loop at line {node.lineno} carries {sorted(carried)} from one iteration to the next")
        return bound

    # ---- objects: mentioned only inside listed patterns, and only where bound ----------------------------------------
    def check_bound(self, node, env, what):
        for n in ast.walk(node):
            if isinstance(n, ast.Name) and n.id in self.spec.objects and not isinstance(n.ctx, ast.Store):
                v = env["vars"].get(("local", n.id))
                if v is None or v.ty != "obj":
                    raise Unsupported(f"{what} `{ast.unparse(node)[:60]}` mentions {n.id} on a path where no object is bound to it")

    def read(self, e, env):
        if self.idx_reads and isinstance(e, ast.expr):
            d = ast.dump(e)
            for (dd, obj, param, ty) in self.idx_reads:      # an observation of an indexed object: a function of its index
                if dd == d:
                    v = env["vars"].get(("local", obj))
                    if v is not None and v.ty == "obj" and v.term is not None:
                        return (f"({param} {v.term})", ty)
        r = super().read(e, env)
        if r is None and self.idx_reads and isinstance(e, ast.expr):
            d = ast.dump(e)
            for (dd, obj, param, ty) in self.idx_reads:
                if dd == d:
                    raise Unsupported(f"observation `{ast.unparse(e)[:40]}`: {obj} is not bound to an indexed object here")
        if r is not None:
            self.check_bound(e, env, "observation")
            if r[1] == "len" and env["lendelta"].get(r[0]):
                return (f"({r[0]} + ({env['lendelta'][r[0]]}))%Z", "len")
        return r

    def cond(self, e, env):
        if (isinstance(e, ast.Compare) and len(e.ops) == 1 and isinstance(e.ops[0], (ast.In, ast.NotIn))
                and isinstance(e.comparators[0], ast.Attribute) and isinstance(e.comparators[0].value, ast.Name)
                and e.comparators[0].value.id == "self" and ("self", e.comparators[0].attr) in env["vars"]
                and env["vars"][("self", e.comparators[0].attr)].ty == "keysZ"):
            k = self.expr(e.left, env)
            if k.ty != "Z":
                raise Unsupported("membership test with a non-integer key")
            t = f"({env['vars'][('self', e.comparators[0].attr)].term} {k.term})"
            return t if isinstance(e.ops[0], ast.In) else f"(negb {t})"
        return super().cond(e, env)

    def expr(self, e, env):
        if isinstance(e, ast.Name) and super().read(e, env) is None:
            v = env["vars"].get(("local", e.id))
            if v is not None and v.ty == "obj":
                raise Unsupported(f"the object {e.id} is used other than through a listed observation / effect / request")
            if e.id in self.spec.objects:
                raise Unsupported(f"{e.id} is read on a path where no object is bound to it")
        return super().expr(e, env)

    def effect(self, s, env):
        for (pat, con, tys, keeps) in self.effects:
            binds = {}
            if _match(pat, s, binds):
                self.check_bound(s, env, "effect")
                names = sorted(binds, key=lambda n: int(n[1:]))
                if len(names) != len(tys):
                    raise Unsupported(f"effect pattern of {con}: {len(names)} holes, {len(tys)} types")
                env, nodes = self.hoist_holes([binds[n] for n in names], env)     # a draw in an argument comes first
                args = [self.hole(nd, ty, env) for nd, ty in zip(nodes, tys)]
                for attr in self.spec.sees.get(con, ()):         # what the callee can see of this object right now
                    if ("self", attr) in env["vars"]:
                        args.append(env["vars"][("self", attr)].term)
                    else:                                        # any translatable expression (`self.d[packet.flow_id]`)
                        args.append(self.expr(_parse_expr(attr), env).term)
                env2 = self.copy(env)
                env2["fx"][1].append(con if not args else "(" + " ".join([con] + args) + ")")
                env2["stale"] |= {p for p in self.volatile if p not in keeps}
                env2["done"].add(con)
                for lp, m in self.spec.len_effects.items():
                    if con in m:
                        env2["lendelta"][lp] = env2["lendelta"].get(lp, 0) + m[con]
                if con in self.spec.key_effects:                 # the effect adds / deletes a key of an observed dict
                    attr, present = self.spec.key_effects[con]
                    cur = env2["vars"][("self", attr)]
                    if cur.ty != "keysZ" or not tys or tys[0] != "Z":
                        raise Unsupported(f"key effect {con}: {attr} must be a keysZ state field and the first hole the key")
                    env2["vars"][("self", attr)] = V(f"(gen_upd {cur.term} {args[0]} {'true' if present else 'false'})", "keysZ")
                if con in self.spec.binds_idx:                   # `packet = self.head_of_line[c]`: an object known by its key
                    tgt = s.targets[0] if isinstance(s, ast.Assign) and len(s.targets) == 1 else None
                    if not isinstance(tgt, ast.Name) or tgt.id != self.spec.binds_idx[con] or not args:
                        raise Unsupported(f"effect {con} must be an assignment to the object local {self.spec.binds_idx[con]}")
                    env2["vars"][("local", tgt.id)] = V(args[0], "obj")
                if con in self.spec.binds:                       # `packet = Packet(..)`: the effect creates the object
                    tgt = s.targets[0] if isinstance(s, ast.Assign) and len(s.targets) == 1 else None
                    if not isinstance(tgt, ast.Name) or tgt.id != self.spec.binds[con]:
                        raise Unsupported(f"effect {con} must be an assignment to the object local {self.spec.binds[con]}")
                    env2["vars"][("local", tgt.id)] = V(None, "obj")
                return env2
        return None

    def hoist_holes(self, nodes, env):
        """listed draws inside the arguments of an effect / request are consumed, left to right, before it"""
        import copy as _copy
        out = []
        for nd in nodes:
            if self.contains_draw(nd):
                nd, env = self.hoist_draws(_copy.deepcopy(nd), env)        # (hoist_draws rewrites the tree it is given)
            out.append(nd)
        return env, out

    # ---- program points ---------------------------------------------------------------------------------------
    def callout_of(self, s):
        for (pat, con, tys) in self.callouts:
            binds = {}
            if _match(pat, s, binds):
                return con, tys, binds
        return None

    def splits(self, s):
        """does statement s contain anything that ends or leaves the straight-line path?"""
        for n in ast.walk(s):
            if isinstance(n, (ast.Yield, ast.YieldFrom, ast.Await, ast.Return, ast.Raise, ast.Assert, ast.While, ast.For,
                              ast.Try, ast.Break, ast.Continue, ast.With, _RaiseMark, _Back, _EndTry, _ForBack, _LoopHead)):
                return True
            if isinstance(n, ast.stmt) and self.callout_of(n) is not None:
                return True
            if self.spec.len_effects and isinstance(n, ast.stmt):        # an effect that changes an observed length: the
                for (pat, con, _, _) in self.effects:                    # branches of an if around it are not joined
                    if any(con in m for m in self.spec.len_effects.values()) and _match(pat, n, {}):
                        return True
        return False

    def names_after(self, kont):
        hidden_of = self.hidden
        return self._names_after(kont, hidden_of)

    @staticmethod
    def _names_after(kont, hidden_of):
        """local names that may be READ before they are written in the statements that run after a program point
        (backward liveness over the structured continuation; an over-approximation is harmless: a frame entry that is
        never read is an unused parameter, a missing one is Unsupported)"""
        def names(node):
            return {n.id for n in ast.walk(node) if isinstance(n, ast.Name)} if node is not None else set()

        def live(stmts, out, brk, cont):
            for s in reversed(stmts):
                if isinstance(s, (_Back, _LoopHead)):
                    s = s.loop
                hid = set()
                if isinstance(s, _ForBack):
                    hid = {hidden_of(s.node)}
                    s = s.node
                if isinstance(s, ast.For):
                    tg = names(s.target)
                    head = out | (set() if hid else names(s.iter)) | hid
                    while True:
                        nxt = head | (live(list(s.body), head, out, head) - tg)
                        if nxt == head:
                            break
                        head = nxt
                    out = head
                    continue
                if isinstance(s, _EndTry):
                    for h in s.node.handlers:                   # an interrupt thrown at a point inside the try
                        out = out | live(list(h.body), out, brk, cont)
                elif isinstance(s, (ast.Assign, ast.AnnAssign)) and isinstance(
                        (s.targets[0] if isinstance(s, ast.Assign) and len(s.targets) == 1 else getattr(s, "target", None)), ast.Name):
                    t = s.targets[0] if isinstance(s, ast.Assign) else s.target
                    out = (out - {t.id}) | names(s.value)
                elif isinstance(s, ast.If):
                    out = names(s.test) | live(list(s.body), out, brk, cont) | live(list(s.orelse), out, brk, cont)
                elif isinstance(s, ast.While):
                    head = out | names(s.test)
                    while True:
                        nxt = head | live(list(s.body), head, out, head)
                        if nxt == head:
                            break
                        head = nxt
                    out = head
                elif isinstance(s, ast.Try):
                    inner = out
                    for h in s.handlers:
                        inner = inner | live(list(h.body), out, brk, cont)
                    out = inner | live(list(s.body), inner, brk, cont)
                elif isinstance(s, ast.Break):
                    out = set(brk)
                elif isinstance(s, ast.Continue):
                    out = set(cont)
                elif isinstance(s, _RaiseMark):
                    out = set()
                else:
                    out = out | names(s)
            return out
        return live(list(kont), set(), set(), set())

    @staticmethod
    def kont_key(kont):
        return tuple(("back", id(i.loop)) if isinstance(i, _Back) else ("head", id(i.loop)) if isinstance(i, _LoopHead)
                     else ("endtry", id(i.node)) if isinstance(i, _EndTry)
                     else ("forback", id(i.node)) if isinstance(i, _ForBack) else ("s", id(i)) for i in kont)

    def pp_name(self, k):
        return f"{self.spec.pp_prefix}{k}"

    def reach(self, s, rest, env, rebound=None):
        """the path arrives at the program point of statement s with continuation rest: -> Coq term of type <pp>"""
        k = self.point[id(s)]
        if k in self.konts:
            if self.kont_key(self.konts[k]) != self.kont_key(rest):
                raise Unsupported(f"program point {k} is reached with two different continuations")
        else:
            self.konts[k] = list(rest)
        later = self.names_after(rest)
        cand = {}
        for key, v in env["vars"].items():
            if key[0] == "local" and key[1] in later and key[1] != rebound and not key[1].startswith("\0"):
                cand[key[1]] = "objidx" if (v.ty == "obj" and v.term is not None and key[1] not in self.spec.demote) else v.ty
        if k not in self.frames:
            self.frames[k] = cand
            self.dirty = True
        else:
            old = self.frames[k]
            new = {n: t for n, t in old.items() if cand.get(n) == t}
            if new != old:
                self.frames[k] = new
                self.dirty = True
        args = []
        for n in sorted(self.frames[k]):
            if self.frames[k][n] != "obj":
                v = env["vars"][("local", n)]
                if self.frames[k][n] == "objidx" or self.frames[k][n].startswith("list:"):
                    args.append(v.term)
                    continue
                args.append(self.toQ(v) if self.frames[k][n] == "Q" and v.ty == "Z" else v.term)
        return self.pp_name(k) if not args else "(" + " ".join([self.pp_name(k)] + args) + ")"

    def end_path(self, env, nxt):
        parts = []
        if self.state:
            parts.append("{| " + "; ".join(f"{self.prefix}{a.lstrip('_')} := {env['vars'][('self', a)].term}" for a, _ in self.state) + " |}")
        parts.append(self.fx_term(env["fx"]))
        parts.append(nxt)
        return "(" + ", ".join(parts) + ")"

    # ---- statements -------------------------------------------------------------------------------------------
    def block(self, stmts, env, k):
        if not stmts:
            return k(env, None)
        s, rest = stmts[0], stmts[1:]
        if isinstance(s, _Back):
            return self.do_while(s.loop, rest, env, k)
        if isinstance(s, _EndTry):
            return self.block(rest, env, k)
        if isinstance(s, _ForBack):
            return self.for_back(s.node, rest, env, k)
        if isinstance(s, _LoopHead):
            return self.do_while(s.loop, rest, env, k, at_head=True)
        if isinstance(s, _RaiseMark):
            return self.end_path(env, f"(NxRaise {s.con})")
        if any(_match(pat, s, {}) for pat in self.ignored):
            return self.block(rest, env, k)
        y = _yield_of(s)
        if y is not None:
            return self.do_yield(s, y[0], y[1], rest, env)
        if isinstance(s, (ast.If, ast.While, ast.Try, ast.For)):
            pass
        elif _has_yield(s):
            raise Unsupported(f"yield inside `{ast.unparse(s)[:60]}` (only `yield e` and `x = yield e` as statements)")
        co = self.callout_of(s)
        if co is not None:
            con, tys, binds = co
            self.check_bound(s, env, "call-out")
            names = sorted(binds, key=lambda n: int(n[1:]))
            if len(names) != len(tys):
                raise Unsupported(f"call-out pattern of {con}: {len(names)} holes, {len(tys)} types")
            args = [self.hole(binds[n], ty, env) for n, ty in zip(names, tys)]
            c = con if not args else "(" + " ".join([con] + args) + ")"
            return self.end_path(env, f"(NxCall {c} {self.reach(s, rest, env)})")
        for (pat, con) in self.raises:
            if _match(pat, s, {}):
                return self.end_path(env, f"(NxRaise {con})")
        if isinstance(s, ast.Assert):
            # assert t  =  if t: pass / else: raise AssertionError   (python -O is not modelled)
            node = ast.If(test=s.test, body=[ast.Pass()], orelse=[_RaiseMark("ExAssert")])
            return self.do_if(node, rest, env, k)
        if isinstance(s, ast.While):
            return self.do_while(s, rest, env, k)
        if isinstance(s, ast.For):
            if any(_match(pat, s, {}) for (pat, _, _) in self.stateops) or any(_match(pat, s, {}) for (pat, _, _, _) in self.bindings):
                return super().block(stmts, env, k)              # a listed loop: its meaning is a parameter (translate.py)
            return self.do_for(s, rest, env, k)
        for (pat, name, ty) in self.idx_aliases:             # `store = self.stores[flow_id]`: an object known by its index
            binds = {}
            if _match(pat, s, binds):
                if sorted(binds) != ["_1"] or name not in self.spec.objects:
                    raise Unsupported(f"indexed alias of {name}: exactly one hole, and {name} a listed object")
                env2 = self.copy(env)
                env2["vars"][("local", name)] = V(self.hole(binds["_1"], ty, env), "obj")
                return self.block(rest, env2, k)
        if isinstance(s, ast.Try):
            if (len(s.handlers) != 1 or s.orelse or s.finalbody or self.spec.interrupt is None
                    or not isinstance(s.handlers[0].type, ast.Name) or s.handlers[0].type.id != self.spec.interrupt):
                raise Unsupported("try statement other than `try: .. except <the listed interrupt class> [as _]: ..`")
            h = s.handlers[0]
            if h.name is not None and any(isinstance(n, ast.Name) and n.id == h.name for x in h.body for n in ast.walk(x)):
                raise Unsupported("the interrupt handler uses the exception object")
            if any(isinstance(n, ast.Try) for x in s.body for n in ast.walk(x)):
                raise Unsupported("nested try")
            return self.block(list(s.body) + [_EndTry(s)] + rest, env, k)
        if isinstance(s, (ast.Break, ast.Continue)):
            for i, x in enumerate(rest):
                if isinstance(x, (_Back, _ForBack)):
                    return self.block(rest[i:] if isinstance(s, ast.Continue) else rest[i + 1:], env, k)
            raise Unsupported("break / continue outside a loop")
        if isinstance(s, ast.AnnAssign):
            if s.value is None or not s.simple:
                raise Unsupported("annotated declaration")
            node = ast.Assign(targets=[s.target], value=s.value)
            return self.block([ast.copy_location(node, s)] + rest, env, k)
        if isinstance(s, ast.Return):
            if s.value is not None and not (isinstance(s.value, ast.Constant) and s.value.value is None):
                raise Unsupported("a generator returning a value")
            return self.end_path(env, "NxExit")
        if isinstance(s, ast.Raise):
            raise Unsupported(f"`{ast.unparse(s)[:60]}` is not a listed raise")
        if isinstance(s, ast.Assign) and len(s.targets) == 1 and isinstance(s.targets[0], ast.Name) \
                and s.targets[0].id in self.spec.objects:
            env2 = self.effect(s, env)
            v = env2["vars"].get(("local", s.targets[0].id)) if env2 is not None else None
            if env2 is None or v is None or v.ty != "obj" or not any(c in env2["done"] for c in list(self.spec.binds) + list(self.spec.binds_idx)):
                raise Unsupported(f"the object local {s.targets[0].id} is assigned other than by `= yield <request>` or a "
                                  f"listed creating effect")
            return self.block(rest, env2, k)
        if isinstance(s, (ast.Assign, ast.AugAssign)) and self.contains_draw(s.value):
            import copy as _copy                                 # FxTr.hoist_draws rewrites the tree it is given, and a
            stmts = [_copy.deepcopy(s)] + rest                   # generator body is translated more than once
        return super().block(stmts, env, k)

    def do_yield(self, s, target, req, rest, env):
        if req is None:
            raise Unsupported("bare yield")
        for (pat, con, tys, resume, idx_of) in self.requests:
            binds = {}
            if _match(pat, req, binds):
                self.check_bound(req, env, "request")
                names = sorted(binds, key=lambda n: int(n[1:]))
                if len(names) != len(tys):
                    raise Unsupported(f"request pattern of {con}: {len(names)} holes, {len(tys)} types")
                env, nodes = self.hoist_holes([binds[n] for n in names], env)
                args = [self.hole(nd, ty, env) for nd, ty in zip(nodes, tys)]
                if idx_of is not None:                           # a request on an indexed object carries its index
                    v = env["vars"].get(("local", idx_of))
                    if v is None or v.ty != "obj" or v.term is None:
                        raise Unsupported(f"request on {idx_of}, which is not bound to an indexed object here")
                    args.append(v.term)
                if resume is None and target is not None:
                    raise Unsupported(f"the value of `yield {ast.unparse(req)[:40]}` is used")
                if resume == "obj" and (target is None or target not in self.spec.objects):
                    raise Unsupported(f"`yield {ast.unparse(req)[:40]}` resumes with an object: it must be bound to a listed object local")
                if resume not in (None, "obj"):
                    raise Unsupported(f"resume kind {resume}")
                r = con if not args else "(" + " ".join([con] + args) + ")"
                return self.end_path(env, f"(NxYield {r} {self.reach(s, rest, env, rebound=target)})")
        raise Unsupported(f"`yield {ast.unparse(req)[:60]}` is not a listed request")

    def do_while(self, w, rest, env, k, at_head=False):
        if w.orelse:
            raise Unsupported("while ... else")
        if ast.dump(w.test) in self.pass_tests:
            if not at_head:
                # the head of a pass loop is a program point: the path ends here, whoever runs the code goes on from it
                return self.end_path(env, f"(NxAgain {self.reach(w, [_LoopHead(w)] + list(rest), env)})")
            node = ast.If(test=w.test, body=list(w.body) + [_Back(w)], orelse=[])
            return self.do_if(node, rest, env, k, force_split=True)
        if id(w) in env["unrolled"]:
            if self.spec.spin and self.unchanged(env, env["wsnap"][id(w)]):
                # a whole iteration changed nothing and reached no yield: every further one does the same (the process hangs)
                return self.end_path(env, "NxSpin")
            raise Unsupported(f"the loop at line {w.lineno} can iterate without reaching a yield")
        env2 = self.copy(env)
        env2["unrolled"] = env["unrolled"] | {id(w)}
        env2["wsnap"][id(w)] = self.snapshot(env)
        node = ast.If(test=w.test, body=list(w.body) + [_Back(w)], orelse=[])
        return self.do_if(node, rest, env2, k, force_split=True)

    def iterable(self, e, env, types_only=False):
        """-> (Coq term of the list, [element types]) for a listed iterable (types_only: the loop is resumed over the rest of
        its table, the iterable expression is not evaluated again)"""
        for (pat, param, tys) in self.iterables:
            binds = {}
            if _match(pat, e, binds):
                if param is None:                            # range(_1)
                    if sorted(binds) != ["_1"]:
                        raise Unsupported("range pattern needs exactly one hole")
                    if types_only:
                        return None, list(tys)
                    return f"(gen_range {self.hole(binds['_1'], 'Z', env)})", list(tys)
                if binds:
                    raise Unsupported("holes in a table iterable")
                return param, list(tys)
        raise Unsupported(f"`for .. in {ast.unparse(e)[:50]}`: not a listed iterable")

    def do_for(self, s, rest, env, k, over=None):
        """for <targets> in <table>: body   =   a structural fix over the (remaining) table; its [] case runs what follows the
        loop, its cons case one iteration ending in the recursive call (_ForBack); `over` = the remaining table when the
        loop is resumed from a program point inside it"""
        if s.orelse:
            raise Unsupported("for ... else")
        if self.spec.thread_loops:
            return self.call_loop(s, rest, env, k, over)
        lterm, tys = self.iterable(s.iter, env, types_only=over is not None)
        if over is not None:
            lterm = over
        names = [s.target] if isinstance(s.target, ast.Name) else list(s.target.elts) if isinstance(s.target, ast.Tuple) else None
        if names is None or any(not isinstance(n, ast.Name) for n in names) or len(names) != len(tys):
            raise Unsupported("for target does not fit the element type of the listed iterable")
        if any(n.id in self.spec.objects for n in names):
            raise Unsupported("a loop variable is a listed object")
        ety = tys[0] if len(tys) == 1 else "(" + " * ".join(COQ_TY[t] for t in tys) + ")"
        ety = COQ_TY[ety] if len(tys) == 1 else ety
        self.loop_locals(s, rest)
        idx = self.for_index[id(s)]
        fix, lv, xv = self.fresh(f"scan{idx}_"), self.fresh(f"l{idx}_"), self.fresh(f"x{idx}_")
        saved = dict(self.counters)
        nil = self.block(list(rest), env, k)
        end_nil = dict(self.counters)
        self.counters = dict(saved)
        env_b = self.copy(env)
        env_b["forfix"][id(s)] = (fix, self.snapshot(env))
        vs = []
        for n, t in zip(names, tys):
            v = self.fresh(n.id)
            vs.append(v)
            env_b["vars"][("local", n.id)] = V(v, t)
        env_b["vars"][("local", self.hidden(s))] = V(f"{lv}'", f"list:{ety}")
        body = self.block(list(s.body) + [_ForBack(s)] + list(rest), env_b, k)
        self.counters = {n: max(end_nil.get(n, 0), self.counters.get(n, 0)) for n in set(end_nil) | set(self.counters)}
        bind = f"let {vs[0]} := {xv} in " if len(vs) == 1 else f"let '({', '.join(vs)}) := {xv} in "
        return (f"((fix {fix} ({lv} : list {ety}) : {self.spec.ret_type} :=\n"
                f"    match {lv} with\n"
                f"    | [] => " + _ind(nil, 12) + "\n"
                f"    | {xv} :: {lv}' => {bind}\n"
                f"                " + _ind(body, 16) + "\n"
                f"    end) {lterm})")

    def state_record(self, env):
        return "{| " + "; ".join(f"{self.prefix}{a.lstrip('_')} := {env['vars'][('self', a)].term}" for a, _ in self.state) + " |}"

    def call_loop(self, s, rest, env, k, over):
        """thread_loops: the loop is a separate definition; here: its call on the (rest of the) table, the state as it is now
        and the effects so far.  Nothing but the loop's own variables may be read by the loop or after it."""
        outer = {key[1] for key in env["vars"] if key[0] == "local"} - self.loop_locals(s, rest)
        used = outer & self.names_after([s] + list(rest))
        if used:
            raise Unsupported(f"the for loop at line {s.lineno} (a separate definition) reads the outer locals {sorted(used)}")
        name = self.loop_def(s, rest, k)
        if over is None:
            lterm, _ = self.iterable(s.iter, env)
        else:
            lterm = over
        ps = "".join(" " + p for p in self.param_names)
        return f"({name}{ps} {lterm} {self.state_record(env) if self.state else ''} {self.fx_term(env['fx'])})"

    def loop_def(self, s, rest, k):
        """the separate definition of for statement s (generated once per translation pass)"""
        if id(s) in self.loopdefs:
            return self.loopdefs[id(s)][0]
        idx = self.for_index[id(s)]
        name = f"{self.spec.name}_loop{idx}"
        self.loopdefs[id(s)] = (name, None)                      # (a nested resumption refers to it by name)
        _, tys = self.iterable(s.iter, self.env0(), types_only=True)
        names = [s.target] if isinstance(s.target, ast.Name) else list(s.target.elts) if isinstance(s.target, ast.Tuple) else None
        if names is None or any(not isinstance(n, ast.Name) for n in names) or len(names) != len(tys):
            raise Unsupported("for target does not fit the element type of the listed iterable")
        ety = COQ_TY[tys[0]] if len(tys) == 1 else "(" + " * ".join(COQ_TY[t] for t in tys) + ")"
        saved = dict(self.counters)
        self.counters = {}
        env = self.env0()
        env["fx"] = ("fx0", [])
        fix = f"scan{idx}"
        nil = self.block(list(rest), env, k)
        env_b = self.copy(env)
        env_b["forfix"][id(s)] = (fix, None)
        vs = []
        for n, t in zip(names, tys):
            v = self.fresh(n.id)
            vs.append(v)
            env_b["vars"][("local", n.id)] = V(v, t)
        env_b["vars"][("local", self.hidden(s))] = V("l'", f"list:{ety}")
        body = self.block(list(s.body) + [_ForBack(s)] + list(rest), env_b, k)
        self.counters = saved
        bind = f"let {vs[0]} := x in " if len(vs) == 1 else f"let '({', '.join(vs)}) := x in "
        st = f" (s : {self.record})" if self.state else ""
        text = (f"  fix {fix} (l : list {ety}){st} (fx0 : list {self.effect_type}) {{struct l}} : {self.spec.ret_type} :=\n"
                f"    match l with\n"
                f"    | [] => " + _ind(nil, 12) + "\n"
                f"    | x :: l' => {bind}\n"
                f"                " + _ind(body, 16) + "\n"
                f"    end")
        self.loopdefs[id(s)] = (name, text)
        return name

    def for_back(self, node, rest, env, k):
        h = env["vars"].get(("local", self.hidden(node)))
        if h is None:
            raise Unsupported("the rest of the table of a for loop is not available here")
        if self.spec.thread_loops:
            if id(node) in env["forfix"]:                        # inside the loop's own definition: the recursive call
                fix, _ = env["forfix"][id(node)]
                return f"({fix} {h.term} {self.state_record(env) if self.state else ''} {self.fx_term(env['fx'])})"
            return self.call_loop(node, rest, env, k, h.term)
        if id(node) in env["forfix"]:
            fix, snap = env["forfix"][id(node)]
            if not self.unchanged(env, snap, ignore=self.loop_locals(node, rest)):
                raise Unsupported(f"an iteration of the for loop at line {node.lineno} that reaches no yield changes state, "
                                  f"effects or draws")
            return f"({fix} {h.term})"
        return self.do_for(node, rest, env, k, over=h.term)      # resumed inside the loop: go on over the rest of the table

    def do_if(self, s, rest, env, k, force_split=False):
        t = s.test
        if self.contains_draw(t):          # Python's evaluation order made explicit (FxTr.do_if does `and` only)
            if isinstance(t, ast.BoolOp) and len(t.values) >= 2:
                first = t.values[0]
                more = t.values[1] if len(t.values) == 2 else ast.BoolOp(op=t.op, values=list(t.values[1:]))
                inner = ast.If(test=more, body=list(s.body), orelse=list(s.orelse))
                if isinstance(t.op, ast.Or):     # if a or b: X else: Y   =   if a: X else: (if b: X else: Y)
                    node = ast.If(test=first, body=list(s.body), orelse=[inner])
                else:                            # if a and b: X else: Y  =   if a: (if b: X else: Y) else: Y
                    node = ast.If(test=first, body=[inner], orelse=list(s.orelse))
                return self.do_if(node, rest, env, k, force_split=True)
            if isinstance(t, ast.UnaryOp) and isinstance(t.op, ast.Not):
                node = ast.If(test=t.operand, body=list(s.orelse) or [ast.Pass()], orelse=list(s.body))
                return self.do_if(node, rest, env, k, force_split=True)
            import copy as _copy
            new, env2 = self.hoist_draws(_copy.deepcopy(t), env)    # (hoist_draws rewrites the tree it is given)
            node = ast.If(test=new, body=list(s.body), orelse=list(s.orelse))
            return self.do_if(node, rest, env2, k, force_split=True)
        if not (force_split or self.splits(s)):
            return super().do_if(s, rest, env, k)
        # the statement contains a program point / a loop / an exit: the continuation is translated inside each branch
        unk = self.option_params(t, env)
        if unk:
            p = unk[0]
            q = p + "'"
            envN, envS = self.copy(env), self.copy(env)
            envN["known"][p] = None
            envS["known"][p] = q
            arms = [("| None =>", envN, [s]), (f"| Some {q} =>", envS, [s])]
            head, tail = f"match {p} with", "end"
        else:
            c = self.cond(t, env)
            if c == "true":
                return self.block(list(s.body) + rest, env, k)
            if c == "false":
                return self.block(list(s.orelse) + rest, env, k)
            arms = [("then", env, list(s.body)), ("else", env, list(s.orelse))]
            head, tail = f"if {c}", ""
        saved = dict(self.counters)
        subs, ends_c = [], []
        for (h, e, body) in arms:
            self.counters = dict(saved)
            subs.append(self.block(body + rest, e, k))
            ends_c.append(dict(self.counters))
        self.counters = {n: max(c.get(n, 0) for c in ends_c) for c0 in ends_c for n in c0}
        if not unk and all(x == subs[0] for x in subs):
            return subs[0]
        out = f"({head}\n"
        for (h, e, body), sub in zip(arms, subs):
            out += f" {h} " + _ind(sub, len(h) + 2) + "\n"
        return (out + f" {tail}").rstrip() + ")"

    def inline_call(self, ent, args, rest, env, k):
        """as FxTr.inline_call, with arbitrary translatable argument expressions: the callee's parameters are locals of
        the inlined body (evaluated once, in order, before the body)"""
        name, path, cls = ent
        f = find_method(path, cls, name)
        if f.args.vararg or f.args.kwarg or f.args.kwonlyargs or f.decorator_list or f.args.defaults:
            raise Unsupported(f"inlined method {name}: signature")
        params = [a.arg for a in f.args.args][1:]
        if len(args) != len(params):
            raise Unsupported(f"inlined call of {name}: {len(args)} arguments for {params}")
        if any(isinstance(n, (ast.Return, ast.Yield, ast.YieldFrom)) for n in ast.walk(f)):
            raise Unsupported(f"inlined method {name} contains return / yield")
        if any(isinstance(x, ast.stmt) and self.callout_of(x) is not None for x in ast.walk(f)):
            raise Unsupported(f"inlined method {name} contains a listed call-out")
        caller_locals = {key: v for key, v in env["vars"].items() if key[0] == "local"}
        env_c = self.copy(env)
        env_c["vars"] = {key: v for key, v in env["vars"].items() if key[0] != "local"}
        lets = ""
        for q, a in zip(params, args):
            if super().read(ast.Name(id=q, ctx=ast.Load()), env) is not None:
                raise Unsupported(f"inlined call of {name}: parameter {q} is also a listed observation")
            line, env_c = self.bind(("local", q), self.expr(a, env), env_c)
            lets += line

        def back(env_end, ret_):
            env_b = self.copy(env_end)
            env_b["vars"] = {**{key: v for key, v in env_end["vars"].items() if key[0] != "local"}, **caller_locals}
            return self.block(rest, env_b, k)
        return lets + self.block(list(f.body), env_c, back)

    # ---- one program point --------------------------------------------------------------------------------
    def start_env(self, kpt):
        env = self.env0()
        for n, ty in sorted(self.frames[kpt].items()):
            env["vars"][("local", n)] = (V(None, "obj") if ty == "obj" else V(f"fr_{n}", "obj") if ty == "objidx"
                                         else V(f"fr_{n}", ty))
        if kpt == 0:
            params = [a.arg for a in self.f.args.args]
            for n in self.spec.param_objects:
                if n not in params or n not in self.spec.objects:
                    raise Unsupported(f"{n} is listed as an object parameter but is not a parameter / listed object")
                env["vars"][("local", n)] = V(None, "obj")
        if kpt != 0:
            y = _yield_of(self.point_node[kpt])
            if y is not None and y[0] is not None:
                env["vars"][("local", y[0])] = V(None, "obj")
        return env

    def from_point(self, kpt, intr=False):
        self.counters = {}
        kont = self.konts[kpt]
        if intr:
            i = next(i for i, x in enumerate(kont) if isinstance(x, _EndTry))
            kont = list(kont[i].node.handlers[0].body) + kont[i + 1:]
        return self.block(list(kont), self.start_env(kpt), lambda env, ret: self.end_path(env, "NxExit"))

    def has_handler(self, kpt):
        """an interrupt is thrown into the generator only where it is suspended: at a yield inside the try"""
        return (kpt != 0 and _yield_of(self.point_node[kpt]) is not None
                and any(isinstance(x, _EndTry) for x in self.konts[kpt]))


def _canonical_object_names(f, spec):
    """the tables name the object a request resumes with by ONE canonical local name (`packet`): if the body binds it to
    another local (`pkt = yield self.store.get()`), that local is renamed throughout the body -- provided the canonical
    name is not in use for anything else and the local is bound by nothing but such yields"""
    if not spec.objects:
        return
    canon = spec.objects[0]          # the first listed object is the one requests resume with
    pats = [_parse_expr(r[0]) for r in spec.requests if r[3] == "obj"]
    names = set()
    for n in ast.walk(f):
        if isinstance(n, ast.stmt):
            try:
                y = _yield_of(n)
            except Unsupported:
                continue
            if y is not None and y[0] is not None and y[1] is not None and any(_match(p, y[1], {}) for p in pats):
                names.add(y[0])
    if len(names) != 1 or names == {canon}:
        return
    old = names.pop()
    if any((isinstance(n, ast.Name) and n.id == canon) or (isinstance(n, ast.arg) and n.arg in (canon, old)) for n in ast.walk(f)):
        return
    for n in ast.walk(f):
        if isinstance(n, ast.Name) and n.id == old:
            n.id = canon


def translate_gen(spec, state, record, prefix, effect_type):
    """-> (list of (program point, intr?, text of the definition), translator)"""
    f = find_method(spec.path, spec.cls, spec.method)
    if f.args.vararg or f.args.kwarg or f.args.kwonlyargs or f.decorator_list:
        raise Unsupported(f"{spec.cls}.{spec.method}: signature")
    if not _has_yield(f):
        raise Unsupported(f"{spec.cls}.{spec.method} is not a generator")
    _canonical_object_names(f, spec)
    spec.ret_type = " * ".join(([record] if state else []) + [f"list {effect_type}", spec.next_type])
    ps = (f" (s : {record})" if state else "")
    seen = {}
    tail = ""
    def param(p, ty, text):
        nonlocal tail
        if p in seen:
            if seen[p] != ty:
                raise Unsupported(f"parameter {p} is listed with two types")
            return
        seen[p] = ty
        tail += f" ({p} : {text})"
    for (_, p, ty, _) in spec.reads:
        param(p, ty, COQ_TY[ty])
    for (_, p, tys) in spec.iterables:                       # a table the body iterates over: a list parameter
        if p is not None:
            ety = COQ_TY[tys[0]] if len(tys) == 1 else "(" + " * ".join(COQ_TY[t] for t in tys) + ")"
            param(p, "list:" + ety, f"list {ety}")
    for (_, obj, p, ty) in spec.idx_reads:                   # an observation of an indexed object: a function of the index
        param(p, "fun:" + ty, f"Z -> {COQ_TY[ty]}")
    for (_, p, ty, _) in spec.draws:
        for q in ([p] if isinstance(p, str) else p):
            param(q, ty, COQ_TY[ty])
    for (_, field, p) in spec.stateops:                      # as in translate.translate_fn
        t = COQ_TY[dict(state)[field]]
        param(p, "op:" + t, f"({t}) -> ({t})")
    for (_, _, p, ty) in spec.bindings:
        param(p, ty, COQ_TY[ty])
    tr = GenTr(spec, state, record, prefix, effect_type, f)
    tr.param_names = list(seen)
    # frames: fixpoint (a frame only shrinks; a new point starts from what the first path to it defines)
    for _ in range(4 * (len(tr.point) + 2)):
        tr.dirty = False
        tr.loopdefs = {}
        done = set()
        while True:
            todo = [kpt for kpt in sorted(tr.konts) if kpt not in done]
            if not todo:
                break
            for kpt in todo:
                done.add(kpt)
                tr.from_point(kpt)
                if tr.has_handler(kpt):
                    tr.from_point(kpt, intr=True)
        if not tr.dirty:
            break
    else:
        raise Unsupported("frames do not stabilise")
    defs = []
    tr.loopdefs = {}
    rt = ([record] if state else []) + [f"list {effect_type}", spec.next_type]
    lines = open(spec.path).read().splitlines()
    for kpt in sorted(tr.konts):
        fr = "".join(f" (fr_{n} : {_cty(ty)})" for n, ty in sorted(tr.frames[kpt].items()) if ty != "obj")
        objs = [n for n, ty in sorted(tr.frames[kpt].items()) if ty == "obj"]
        if kpt == 0:
            where = "entry (the kernel processes the Initialize event)"
        else:
            nd = tr.point_node[kpt]
            src = lines[nd.lineno - 1].strip()[:90].replace("(*", "( *").replace("*)", "* )")    # no Coq comment brackets
            where = f"resumed after line {nd.lineno}: `{src}`"
            if isinstance(nd, ast.While):
                where = f"at the head of the loop of line {nd.lineno}: `{src}` (reached with NxAgain: one pass, or what follows the loop)"
            y = _yield_of(nd)
            if y is not None and y[0] is not None:
                objs = sorted(set(objs) | {y[0]})
        for intr in ([False, True] if tr.has_handler(kpt) else [False]):
            body = tr.from_point(kpt, intr)
            nm = f"{spec.name}_from_{kpt}" + ("_intr" if intr else "")
            note = f"(* {spec.cls}.{spec.method}, program point {kpt}: {where}"
            if intr:
                note += f"; {spec.interrupt} thrown into the generator at this point"
            if objs:
                note += f"; objects bound: {', '.join(objs)}"
            defs.append(f"{note} *)\nDefinition {nm}{ps}{fr}{tail}\n  : {' * '.join(rt)} :=\n  " + _ind(body, 2) + ".\n")
    loops = []
    for node_id, (name, text) in sorted(tr.loopdefs.items(), key=lambda kv: -tr.for_index[kv[0]]):
        if text is None:
            raise Unsupported("a loop definition refers to itself from outside its body")
        loops.append(f"(* {spec.cls}.{spec.method}, the for loop number {tr.for_index[node_id]} as a separate definition: the (rest of the) table, "
                     f"the state and the effects so far -> as for a program point *)\n"
                     f"Definition {name}{tail}\n  :=\n{text}.\n")
    return loops + defs, tr


def gen_run_module(title, spec, state, record, prefix, effect_type, fx_cons, req_cons, call_cons=(), exn_cons=(),
                   types="run", pp_prefix="PP", header=True):
    """text of (a section of) Gen/Extracted_*_run.v for ONE generator body.
    types: prefix of the generated type names (<types>_req, <types>_call, <types>_exn, <types>_pp, <types>_next);
    *_cons = [(constructor, "(arg : T) ..")] declarations; ExAssert is always an exception constructor"""
    spec.pp_prefix = pp_prefix
    spec.next_type = f"{types}_next"
    defs, tr = translate_gen(spec, state, record, prefix, effect_type)
    out = []
    if header:
        out += [HEADER.rstrip("\n"), "From Coq Require Import List.", "Import ListNotations."]
    out += [f"(* {title} *)", "(* by vlib/translate_gen.py: the generator body cut at its program points (0 = entry, then every yield /",
            "   listed call-out in source order); one definition per reachable point: state fields, effects in program order,",
            "   and what the process does next *)", ""]
    if any(p is None for (_, p, _) in spec.iterables):
        out.append("(* range(n) *)")
        out.append("Definition gen_range (n : Z) : list Z := map Z.of_nat (seq 0 (Z.to_nat n)).")
    if any(ty in ("mapQ", "mapZ", "keysZ") for _, ty in state):
        out.append("(* d[k] = v on a dict modelled as a total function *)")
        out.append("Definition gen_upd {V : Type} (f : Z -> V) (k : Z) (v : V) : Z -> V := fun x => if Z.eqb x k then v else f x.")
    if state:
        out.append(f"Record {record} := {{ " + "; ".join(f"{prefix}{a.lstrip('_')} : {COQ_TY[ty]}" for a, ty in state) + " }.")

    def ind(name, cons):
        return f"Inductive {name} :=" + ("".join(f"\n| {c} {a}".rstrip() for c, a in cons) if cons else " ") + "."
    out.append(ind(effect_type, fx_cons))
    out.append(ind(f"{types}_req", req_cons))
    if call_cons:
        out.append(ind(f"{types}_call", call_cons))
    out.append(ind(f"{types}_exn", [("ExAssert", "")] + list(exn_cons)))
    pps = []
    for kpt in sorted(tr.konts):
        if kpt == 0:
            continue
        pps.append((tr.pp_name(kpt), " ".join(f"({n} : {_cty(ty)})" for n, ty in sorted(tr.frames[kpt].items()) if ty != "obj")))
    out.append("(* program points (with the numeric locals that live across them) *)")
    out.append(ind(f"{types}_pp", pps))
    nx = [("NxYield", f"(r : {types}_req) (k : {types}_pp)")]
    if call_cons:
        nx.append(("NxCall", f"(c : {types}_call) (k : {types}_pp)"))
    nx += [("NxExit", ""), ("NxRaise", f"(e : {types}_exn)")]
    if spec.spin:
        nx.append(("NxSpin", ""))          # the generator loops for ever without yielding
    if spec.pass_loops:
        nx.append(("NxAgain", f"(k : {types}_pp)"))      # go on at the head of a pass loop (no kernel step in between)
    out.append(ind(f"{types}_next", nx))
    out.append("")
    out += defs
    return "\n".join(out)
