"""Printing Python values as Coq terms (the only place where cases are serialised to Coq)."""
from fractions import Fraction


def z(n):
    n = int(n)
    return f"({n})%Z"


def nat(n):
    n = int(n)
    assert 0 <= n < 5000, n
    return f"{n}%nat"


def b(x):
    return "true" if x else "false"


def frac(x):
    """exact rational of an int / float / Fraction / 'a/b' string"""
    if isinstance(x, str):
        return Fraction(x)
    if isinstance(x, bool):
        raise TypeError(x)
    if isinstance(x, float):
        if x != x or x in (float("inf"), float("-inf")):
            raise ValueError(x)
    return Fraction(x)


def q(x):
    """Coq Q literal (n # d) of an exact rational"""
    f = frac(x)
    return f"(({f.numerator})%Z # {f.denominator})"


def qjson(x):
    """canonical JSON form of a number that is compared exactly: 'n/d' string"""
    f = frac(x)
    return f"{f.numerator}/{f.denominator}"


def lst(items, sep="; "):
    return "[" + sep.join(items) + "]"


def opt(x, f=lambda v: v):
    return "None" if x is None else f"(Some {f(x)})"


def pair(*xs):
    return "(" + ", ".join(xs) + ")"


def string(s):
    assert '"' not in s
    return f'"{s}"%string'
