#!/usr/bin/env python3
"""Writes /verif/MANIFEST.json from the table below (one place to keep the per-property claims current)."""
import json
import os

VERIF = os.path.dirname(os.path.dirname(os.path.abspath(__file__)))

TECH = "machine-checked proof in Coq 8.16 (theorems about a Gallina model, by induction/invariants over all executions) + model/implementation correspondence check on every run"

COMMON_NOTE = ("Trusted: Coq 8.16.1 kernel (coqc full .vo build; vm_compute for the correspondence; no native_compute; coqchk -o in the "
               "thorough tier); the hand-written Gallina model, tied to /repo on every run by the correspondence check (differential, bounded "
               "by its generators); the Python harness and Coq term printer. No axioms: every theorem prints 'Closed under the global "
               "context'. Float rounding is outside the theorems (models use Q; compared runs use dyadic parameters so floats are exact).")

# id -> (claimed text, level note (specific), design ref)
CHECKS = {
    "C01": ("24 theorems (Props/C01.v) about step/run/do_call of the executable kernel model Kernel/Model.v, for all process automata (any "
            "number of processes, any code table) and all executions: the real run/step/module code only perform kernel transitions; "
            "agenda invariant (times >= now, distinct keys); clock monotone; an entry takes effect exactly in the step that sets now to "
            "its time, a timeout created at t0 with delay d >= 0 exactly at t0+d; nothing is skipped when the clock advances; run() "
            "drains the agenda; pop order = key order with the corollaries same-class FIFO (trigger order) and urgent-first; Initialize, "
            "Interruption and the numeric-until sentinel are URGENT and everything else NORMAL; a negative delay answers ValueError and "
            "changes nothing. The model is compared trace by trace with the real onl.sim kernel on 800 (quick) / 12000 (thorough) "
            "generated script families per run (dyadic delays incl. fine ones 2^-10..2^-16, forced same-instant coincidences).",
            "Full. Model = repaired kernel (fix bd0bcc6). Trusted besides the common base: CPython generators and heapq (the agenda is "
            "modelled as 'pop the minimum of pairwise distinct keys'). Executions are considered up to the first exception escaping "
            "from the middle of a callback loop (DESIGN section 4, hypothesis ii).",
            "DESIGN.md section 4 C01, section 8"),
    "C02": ("38 theorems (Props/C02.v) about Kernel/Model.v for all process automata and all (clean) executions: callbacks_exactly_once, "
            "processed_forever, no_append_after_processing, waiter_unique (also between two callbacks of a step), "
            "resumed_exactly_once, not_resumed_by_other_events, resume_gets_outcome, value_stable / delivered_is_triggered_outcome, "
            "yield_processed_continues, trigger_once (succeed / fail / non-exception), process_event_outcome, failure_never_lost, "
            "undefused_without_handler, only_handlers_defuse, failure_propagates_from_run. The model is compared trace by trace with the "
            "real kernel on 700 (quick) / 16000 (thorough) script families (45% shaped: opposite-kind double triggers, falsy return "
            "values, value-0 timeouts, unhandled failures), and an independent delivery-log monitor evaluates the clauses on the real code.",
            "Clean executions = up to the first exception escaping from the middle of a callback loop. PARTIAL in one respect: stability "
            "of a Process event's outcome between trigger and processing is checked by the monitor, not proved (it is false under a "
            "manual succeed() on a live process); condition values are C05's subject.",
            "DESIGN.md section 4 C02, section 8"),
    "C06": ("15 theorems (C06_users_le_capacity, queue_sorted, rank_meaning, grant_is_head, no_overtaking, free_slot_has_release, "
            "no_idle_slot_at_advance, release_idempotent, release_twice, preempt_call, victim_is_worst_ranked, preempt_request, "
            "evictions_strict, only_preemptive_evicts, users_have_usage_since) hold for Resource/PriorityResource/PreemptiveResource of "
            "every capacity >= 1 and every admissible history of any length of the Gallina automaton coq/Res/Resource.v "
            "(request/release/cancel/with-exit/process-end operations by any number of processes, kernel event processing in any order, "
            "clock advances); the real classes are driven with 500 (quick) / 8000 (thorough) random histories whose observed execution "
            "is replayed in the model and compared after every action (users, queue, count, pending events, triggered requests, "
            "interrupts) and checked admissible.",
            "Full. Standalone automaton (not inside the kernel model). Hypotheses, checked on every observed history: a process holds "
            "or awaits at most one request; cancel/with-exit by the owner and not repeated; an ended process issues nothing. Monitor "
            "only (not in Coq): delivery of the Interruption into the victim's generator (C04) and the `resource` field of Preempted. "
            "That the kernel empties the instant before advancing is C01 and is checked as admissibility of every observed run. One "
            "defect repaired (ffa1b36: preempting a user whose process has ended raised and stranded the preemptor).",
            "DESIGN.md section 4 C06, section 8"),
    "C07": ("30 theorems (C07_level_bounds, level_conservation, *store_bounded, delivered_exactly_once_*, triggered_at_most_once, "
            "store_fifo, prio_store_min, filter_store_first_match, puts_fcfs, gets_fcfs, filter_overtake_only_nonmatching, "
            "heads_blocked_at_advance + per-kind forms, heappop_min_and_multiset, heappush_multiset, heap_total, and the refutation of "
            "the unrepaired cancel) hold for every capacity, initial level, item/priority/filter and every admissible interleaving of "
            "put/get/cancel/event-processing/clock-advance of the model coq/Res/ContainerStore.v (heapq transcribed in Res/Heap.v); the "
            "model is compared with the real Container/Store/PriorityStore/FilterStore after every action on 3000 (quick) / 40000 "
            "(thorough) generated histories per run, each observed execution checked admissible.",
            "Full. Standalone automaton. Assumed: request events are triggered only by the resource; Container 0<=init<=capacity; "
            "capacity > 0 or infinite as the constructors enforce; integer priority keys; which of two equal-priority items leaves first is reproduced by the model (heap arrays compared) "
            "but is not a theorem. Trusted: the kernel does not advance the clock past a triggered unprocessed event (C01; checked per "
            "observed run). Defects repaired: e27f019 (cancel of a blocking head request did not rescan) and the fractional store "
            "capacity guard (see known_findings.json).",
            "DESIGN.md section 4 C07, section 8"),
    "C09": ("23 theorems of Props/C09.v (departure recurrence incl. rate 0 and FIFO, tail-drop iff in byte and packet mode, occupancy bound, "
            "counters, exact byte occupancy, per-hop stamps, PortMonitor samples, never-late / work-conserving, RED EWMA recurrence and the "
            "three RED regions, six refutations of the code as found) hold for all rates, limits/modes, thresholds/weights and all "
            "admissible executions of the Gallina models Elem/Port.v + Elem/Red.v; the models are replayed action by action against the "
            "real Port/REDPort/PortMonitor on 400 (quick) / 10000 (thorough) generated executions per run plus corpus cases.",
            "Full after 5 fix: commits (a277047, fecbe41, 0d56be9, 8fdfee8, 56cf361). Not formalised: 'with probability p' (= refused iff "
            "uniform u <= p(avg)). Assumed: sizes >= 0 (occupancy/never-late), min<=max<=qlimit (RED below-min clause), self.out set. "
            "Scripted random.uniform / sampling distribution.",
            "DESIGN.md section 4 C09, section 8"),
    "C10": ("14 theorems (C10_wire_spec: the timed deliveries/losses of every admissible execution are exactly the property's recurrence "
            "over arrivals and draws; delivery_time, fifo, delivery_instants_sorted, no_loss_exactly_once, lost_never_delivered, "
            "lost_delays_nobody, loss_iff, never_late; cable_independent(_frame), cable_commute, cable_wiring, cable_outputs_go_across) "
            "hold for every loss configuration, every admissible execution (all interleavings of puts and kernel micro-steps inside an "
            "instant) and all draws of the Gallina models of Wire and Cable; the models are compared action by action with the real "
            "Wire/Cable on 400 (quick) / 12000 (thorough) generated executions per run.",
            "Full. 'With probability p' is read as: lost iff the uniform draw is < loss_rate. Admissibility of the real kernel's "
            "executions (urgent steps before the clock advances) is checked on every observed execution, and is C01's theorem for the kernel model.",
            "DESIGN.md section 4 C10, section 8"),
    "C13": ("For all rates > 0, all priority tables over distinct flows and all admissible executions of the Gallina model of the repaired SP "
            "(onl/scheduler/sp.py + base.py): whenever run() dequeues a packet of flow f every flow of larger priority holds nothing "
            "(C13_sp_strict); at the start of the transmission anything a higher flow holds arrived in that very instant after the "
            "dequeue (C13_sp_strict_at_start, C13_sp_commit_same_instant); transmissions are never aborted (C13_sp_non_preemptive); the "
            "pinned loop is refuted (C13_sp_strict_refuted_before_fix). The model is compared with the real SP on 300 (quick) / 9000 "
            "(thorough) executions per run, every observed kernel step checked admissible.",
            "Full, with this reading of 'waiting at that instant': the kernel orders occurrences inside an instant; the scheduler commits "
            "at the dequeue (store.get granted); a higher-priority packet put between that dequeue and the start of the transmission "
            "process in the same instant is not displaced (non-preemptive). Defect repaired: /repo 0e96376 (SP served one packet per "
            "class per pass).",
            "DESIGN.md section 4 C13, section 8"),
    "C16": ("ACK clause: C16_ack_is_prefix / C16_ack_monotone hold for every arrival sequence (any order, duplicates, gaps, missing first "
            "segment) of the Gallina model of TCPSink; the model is compared with the real TCPSink on 1000 (quick) / 20000 (thorough) "
            "generated arrival sequences per run; the pre-fix ACK choice is refuted by a witness (C16_ack_refuted_before_fix).",
            "PARTIAL: see the evidence file's `partial` list for clauses not carried by a theorem (sender reliability/liveness).",
            "DESIGN.md section 4 C16, section 8"),
    "C19": ("For every admissible history of stop()/restart(tau) calls by foreign processes and by the timer's own callback, at any instants "
            "incl. the expiry instant and several per instant, one-shot and auto-restart, all positive timeouts: fires exactly at expiry / "
            "every timeout (C19_fires_at_expiry, C19_auto_restart_period), stop is final, restart re-bases to r+tau from outside and from "
            "the callback, firing instants strictly increase with exact args (no_double_fire, fires_only_at_expire_time), no error state "
            "is reachable (timer_never_raises) via the invariant 'one live uninterrupted timer process waiting until exactly "
            "expire_time'; three theorems show the pre-fix code raised. The model is compared action by action with the real Timer on "
            "~550 (quick) / ~10500 (thorough) stepped executions per run.",
            "Full. Assumed as admissibility of the automaton (and checked on every observed execution): kernel facts K1 (URGENT before "
            "NORMAL, due events before the clock moves: C01) and K2 (Initialize before Interruption: C04). Outside: float rounding "
            "(dyadic inputs; extra float-mode cases go through the monitor only), callbacks that raise, restart(tau<=0). restart() of an "
            "already-fired one-shot does not re-arm (unspecified by C19; proved as C19_expired_one_shot_never_refires). Repairs: f3ce555, "
            "4f3b0bd, ca556aa.",
            "DESIGN.md section 4 C19, section 8"),
    "C20": ("C20_same_events (for every kernel state type and step function the real-time run performs exactly the plain run's steps), "
            "C20_never_early, C20_sleeps_exact, C20_strict_iff, C20_nonstrict_never_raises, C20_proceeds_when_reached: proved for ALL "
            "wall-clock reading sequences (sleeps early/late, arbitrary processing time). Tie: RealtimeEnvironment.step is run with a "
            "scripted monotonic/sleep on random programs; every step's (peek, readings consumed, sleeps requested, outcome) is replayed in "
            "the model, and the program's trace is compared with the plain Environment's.",
            "The kernel is abstract in the model (pacing only uses peek() and then calls Environment.step); 'same events' on the real "
            "kernel is checked by running each program on both environments. Real sleeping is not exercised and not claimed.",
            "DESIGN.md section 4 C20, section 8"),
}

NOT_APPLICABLE = []


def main():
    checks = []
    for pid in sorted(CHECKS):
        text, note, ref = CHECKS[pid]
        checks.append({
            "property_id": pid,
            "quick_cmd": f"./check {pid} --tier quick",
            "thorough_cmd": f"./check {pid} --tier thorough",
            "evidence_file": f"/verif/evidence/{pid}.json",
            "replay_cmd_template": f"./check {pid} --replay {{path}}",
            "engine": "coq-proof+correspondence",
            "technique": TECH,
            "level_claimed": {"category": "proof", "text": text, "design_ref": ref},
            "level_note": note + " " + COMMON_NOTE,
        })
    listed = set(CHECKS)
    m = {
        "version": 1,
        "setup_cmd": "./setup.sh",
        "hooks": {
            "guard": "ONL_EDU_VERIF",
            "enable": "no source hooks are needed: the harness imports the classes from /repo's working tree (PYTHONPATH=/repo) and "
                      "instruments them from outside (taps, scripted random/clock, env.step() driving); ./check exports ONL_EDU_VERIF=1 "
                      "for uniformity",
            "baseline_off_cmd": "cd /repo && /venv/bin/python -m pytest -ra -q -p no:cacheprovider --timeout=900 --continue-on-collection-errors",
            "source_commits": [],
            "add_only": True,
        },
        "engines": [{
            "name": "coq-proof+correspondence", "path": "/verif/check", "serves_properties": sorted(listed),
            "kind_free_text": "Coq 8.16.1 theorems about hand-written Gallina models (coq/), tied to /repo on every run by a correspondence "
                              "check that evaluates the model inside Coq (vm_compute) on the inputs/executions the real code was run on; "
                              "Python monitors (the property as an oracle on the real code) search for a concrete failing input when an "
                              "obligation or the correspondence breaks"}],
        "checks": checks,
        "not_applicable": NOT_APPLICABLE,
        "notes": "Genuine defects repaired by fix: commits in /repo and remaining known findings are listed in /verif/known_findings.json. "
                 "Properties not listed under checks are still being built in this round (see DESIGN.md section 8).",
    }
    with open(os.path.join(VERIF, "MANIFEST.json"), "w") as fh:
        json.dump(m, fh, indent=1)
    print("MANIFEST.json:", len(checks), "checks")


if __name__ == "__main__":
    main()
