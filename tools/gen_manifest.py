#!/usr/bin/env python3
"""Writes /verif/MANIFEST.json from the table below (one place to keep the per-property claims current)."""
import json
import os

VERIF = os.path.dirname(os.path.dirname(os.path.abspath(__file__)))

TECH = "machine-checked proof in Coq 8.16 (theorems about a Gallina model, by induction/invariants over all executions) + model/implementation correspondence check on every run"

COMMON_NOTE = ("Trusted: Coq 8.16.1 kernel (coqc full .vo build; vm_compute for the correspondence; no native_compute; coqchk -o in the "
               "thorough tier); the hand-written Gallina model, tied to /repo on every run by the correspondence check (differential, bounded "
               "by its generators); the Python harness and Coq term printer. No axioms: every theorem prints 'Closed under the global "
               "context'. Float rounding is outside the theorems (models use Q; compared runs use dyadic parameters so floats are exact).")

# id -> (claimed text, level note (specific), design ref)
CHECKS = {
    "C01": ("24 theorems (Props/C01.v) about step/run/do_call of the executable kernel model Kernel/Model.v, for all process automata (any "
            "number of processes, any code table) and all executions: the real run/step/module code only perform kernel transitions; "
            "agenda invariant (times >= now, distinct keys); clock monotone; an entry takes effect exactly in the step that sets now to "
            "its time, a timeout created at t0 with delay d >= 0 exactly at t0+d; nothing is skipped when the clock advances; run() "
            "drains the agenda; pop order = key order with the corollaries same-class FIFO (trigger order) and urgent-first; Initialize, "
            "Interruption and the numeric-until sentinel are URGENT and everything else NORMAL; a negative delay answers ValueError and "
            "changes nothing. The model is compared trace by trace with the real onl.sim kernel on 800 (quick) / 12000 (thorough) "
            "generated script families per run (dyadic delays incl. fine ones 2^-10..2^-16, forced same-instant coincidences).",
            "Full. Model = repaired kernel (fix bd0bcc6). Trusted besides the common base: CPython generators and heapq (the agenda is "
            "modelled as 'pop the minimum of pairwise distinct keys'). Executions are considered up to the first exception escaping "
            "from the middle of a callback loop (DESIGN section 4, hypothesis ii).",
            "DESIGN.md section 4 C01, section 8"),
    "C02": ("38 theorems (Props/C02.v) about Kernel/Model.v for all process automata and all (clean) executions: callbacks_exactly_once, "
            "processed_forever, no_append_after_processing, waiter_unique (also between two callbacks of a step), "
            "resumed_exactly_once, not_resumed_by_other_events, resume_gets_outcome, value_stable / delivered_is_triggered_outcome, "
            "yield_processed_continues, trigger_once (succeed / fail / non-exception), process_event_outcome, failure_never_lost, "
            "undefused_without_handler, only_handlers_defuse, failure_propagates_from_run. The model is compared trace by trace with the "
            "real kernel on 700 (quick) / 16000 (thorough) script families (45% shaped: opposite-kind double triggers, falsy return "
            "values, value-0 timeouts, unhandled failures), and an independent delivery-log monitor evaluates the clauses on the real code.",
            "Clean executions = up to the first exception escaping from the middle of a callback loop. PARTIAL in one respect: stability "
            "of a Process event's outcome between trigger and processing is checked by the monitor, not proved (it is false under a "
            "manual succeed() on a live process); condition values are C05's subject.",
            "DESIGN.md section 4 C02, section 8"),
    "C03": ("26 theorems (Props/C03.v) about run/run_prelude/run_loop/step of Kernel/Model.v for all program tables: run(until=number) and "
            "run(until=event) specifications from every calm state (calm — incl. 'no stale stop callback' — is an invariant "
            "re-established by every run(until) that returns), t <= now refused with ValueError and no change, the stop is raised after "
            "ALL callbacks of the until-event, the AssertionError inside run() is unreachable; split transparency: for ALL programs the "
            "split run with stop callbacks erased IS the free run with inert sentinels inserted (exactly the uninterrupted run for plans "
            "of run(), run(until=event), step(n)); for parametric programs (event ids opaque, no peek; every peek-free script) and ALL stop "
            "points incl. numeric horizons at due instants the user-visible trace equals that of run() up to an increasing renaming of "
            "event ids; the as-found kernel is refuted. 600 (quick) / 5000 (thorough) bundles (uninterrupted + 3 split plans) compared "
            "trace by trace; fresh-interpreter reruns under 2 / 16 PYTHONHASHSEED values.",
            "Reproducibility across interpreter processes and hash seeds is CHECKED (fresh interpreters, 2 seeds x 40 bundles quick, 16 x "
            "200 thorough), not proved (in Coq run is a function). The full split_transparent needs parametric programs (in the model an "
            "event is a number an arbitrary automaton could branch on; a numeric horizon shifts later ids); for arbitrary automata the "
            "_partial and _events_steps theorems are what is proved. env.peek() inside a process during run(until=number) sees the "
            "sentinel (excluded). Repair: bd0bcc6. The rerun checks also use the plugins C06, C07, C16, C18, C19 and the parts route/gensink as scenario sources, programs that seed the random module themselves, big-integer clocks, and a split plan of a seeded network scenario compared with its single run; Environment.run is tied by translation (C03_gen_run).",
            "DESIGN.md section 4 C03, section 8"),
    "C04": ("34 theorems (Props/C04.v) about call_interrupt/do_interruption/resume_loop/run_callbacks/step of Kernel/Model.v, for all code "
            "tables and all states reachable by module-level code, run() preludes and clean steps: interrupt on a dead process "
            "(generator ended, termination event processed or not) or on oneself returns RuntimeError and changes nothing, for ever "
            "after the end; an accepted interrupt adds exactly one Interruption event (failed with Interrupt(cause), defused) with one "
            "URGENT entry due now; while it is pending the clock cannot move and no NORMAL entry and no later-issued interruption is "
            "processed before it; the step processing it removes the victim's _resume from its unique waiter list and resumes the victim "
            "with Interrupt(cause), or does nothing if the victim has ended; afterwards the old target keeps outcome/defusal/other "
            "callbacks, an event resumes only processes whose current target it is, a re-yield continues at once or waits again; an "
            "interruption aimed at p is never the agenda minimum before p's Initialize is processed, and the first resumption sends None. "
            "Model compared trace by trace with the real kernel on ~600 (quick) / 15000 (thorough) script families (55% shaped).",
            "Full. Executions are followed up to the first step whose callback loop is left by an escaping exception or out-of-fuel; "
            "interrupt_delivery assumes the victim was not made to wait for the Interruption event aimed at itself (forged id, impossible "
            "through the API). RBroken is excluded, not proved unreachable. Model = repaired kernel (bd0bcc6).",
            "DESIGN.md section 4 C04, section 8"),
    "C05": ("23 theorems (Props/C05.v) about Kernel/Model.v for all programs and all executions: a state invariant on every reachable state "
            "incl. mid-step states (C05_invariant); the trigger characterisation of every completed step for every pending condition "
            "(C05_cond_step with corollaries never_earlier, any_of_first, all_of_last); construction (empty operand list / any_of / "
            "all_of with already processed operands / non-event operand refused); exact value = the leaves processed at the moment the "
            "condition itself is popped (C05_value_exact, the gap between trigger and processing); operand failure forwarded and "
            "defused; late operands ignored and late failures surfacing; outcome final; _build_value never broken. Compared with the "
            "real kernel on 700 (quick) / 16000 (thorough) script executions plus 38 direct checks (lazy iterables, mixed environments, "
            "late failures) per run.",
            "PARTIAL: mixed_env_refused is checked by direct calls, not proved (the model has one environment); the step theorems "
            "assume the condition is not detached by an already processed enclosing condition — the code violates the property there "
            "(KNOWN FINDING nested-cond-detached: _remove_check_callbacks of an enclosing condition removes a still pending nested "
            "condition's own _check, so it never triggers; upstream SimPy behaviour, repair not small; refutation "
            "C05_all_of_refuted_when_detached); no explicit succeed/fail on the condition object; exception equality for Process "
            "operands modulo overwrite by misuse.",
            "DESIGN.md section 4 C05, section 8"),
    "C08": ("Per element X in {Wire/Cable, Port/REDPort, TokenBucket/TwoRateTokenBucket, SP/RR/WRR, DRR, WFQ/VirtualClock}: X_conserves "
            "(packets put in = forwarded ++ dropped-by-the-documented-rule ++ held, as lists/permutations of the very packet records), "
            "X_flow_fifo, X_drained (and never-raises where applicable), for all parameterisations and all admissible executions "
            "(Props/C08_Wire.v, C08_Port.v, C08_Bucket.v, C08_MQ.v, C08_DRR.v, C08_WFQ.v); C08_generator_law and "
            "C08_generator_until_finish (DistPacketGenerator), C08_sink_books (PacketSink) (Props/C08_GenSink.v); C08_network_conserves / "
            "C08_network_quiescent: for ANY finite wiring of conserving elements, injected = delivered + dropped + held "
            "(Props/C08_Net.v). 44 theorems. Every element model is replayed against the real class (500 quick / 12000 thorough cases over "
            "all parts) and random pipelines generator -> 1-3 real elements -> per-flow sinks are run to quiescence under a conservation monitor.",
            "Composition is proved, not only monitored: Elem/Iface.v + Compose.v give A >> B, pipelines of any length, fan-in and fan-out "
            "with projection of every execution onto every stage and compositional conservation / per-flow FIFO / drained "
            "(Props/C08_Pipe.v, 46 theorems); the REAL SimplePacketSwitch and FairPacketSwitch (demux >> bank of Port [>> SP | WFQ | "
            "VirtualClock | DRR]) and NSplitter / Hub are instances for all port counts and tables (Props/C08_Route.v, 16 theorems), "
            "replayed against the real classes in one Environment (kinds pipe, fanin, fanout, sswitch, fswitch, fswitch2, flowdemux, "
            "fibdemux, nsplitter, hub). The free-form `pipeline` kind (generator -> random elements -> sinks) stays monitor-only. "
            "Repairs are listed under the elements' own properties (incl. 965d42d: Wire entry stamp per queued entry).",
            "DESIGN.md section 4 C08, section 8"),
    "C11": ("21 theorems (Props/C11.v): TokenBucket executions are the (rate, B, peak) recurrence: head = max(arrival, previous departure), "
            "debit at the least instant the bucket holds the size (uncapped only for packets > B), departure = debit + 8*size/peak, "
            "conformance sum(size_i..j) <= max(B,size_i) + rate*(t_j-t_i)/8 for all i<=j, peak spacing, FIFO, lossless. "
            "TwoRateTokenBucket: recurrence, colour iff, shaping against (PIR,PBS) or (CIR,CBS), green bytes over any window <= "
            "CBS + CIR*dt/8. Four refuted_before_fix theorems replay the code as found. Correspondence on 400 (quick) / 10000 (thorough) "
            "generated executions plus corpus cases per run.",
            "Full after 6 fix: commits (4c0da79, 639ce2f, 052c26e, c4573fa, 6272f57, 165a670). Hypotheses: rate/CIR/PIR > 0. The "
            "two-rate marker is read as RFC 2698 colour-blind marking plus shaping on the peak bucket (repairs 052c26e and c4573fa rest on "
            "that reading).",
            "DESIGN.md section 4 C11, section 8"),
    "C12": ("For each of SP, RR, WRR (Props/C12_MQ.v, 24 theorems), DRR (Props/C12_DRR.v, 8) and WFQ, VirtualClock (Props/C12_WFQ.v, 16): "
            "work-conserving (when the clock may move, a transmission is in progress or nothing is held; via the no-lost-wake-up "
            "invariant), one at a time and never aborted, transmission time exactly 8*size/rate, back-to-back, per-flow FIFO, exactly "
            "once (also for several flows mapped onto one class where the scheduler takes a class map), per-flow counters = packets/bytes "
            "waiting or in transmission, run() never spins, Monitor samples with the packet in service included or excluded. All "
            "parameter tables, rates > 0, all admissible executions. Models replayed against the six real schedulers and the Monitor on "
            "360 (quick) / 9000 (thorough) executions per run, incl. two instances in one Environment.",
            "Full. 'Eventually transmitted' is carried by work conservation + drained + admissibility, not by a separate liveness "
            "theorem. Repairs: 97deeee (Monitor), b2bc02b (DRR class map), d0d3d61 (WFQ class count), 0e96376 (SP), and the SP class map "
            "a131332 (SP files packets by class).",
            "DESIGN.md section 4 C12, section 8"),
    "C14": ("17 theorems (Props/C14.v): WFQ stamp recurrence incl. the first packet of a busy period; virtual-time growth, active set, reset "
            "on empty; VirtualClock stamp; every transmission start takes the strictly least (stamp, arrival instant, arrival counter) "
            "selected in that instant; keys of every reachable store are pairwise distinct and the list priority queue is refined by "
            "the heapq transcription; no exception on any configured packet; static-backlog fairness |W_i/w_i - W_j/w_j| <= Lmax/w_i + "
            "Lmax/w_j; the pinned first-packet behaviour refuted. All positive weight/vtick tables, rates > 0, all flow->class maps, "
            "all admissible executions. Models replayed on 400 (quick) / 8000 (thorough) real executions per run incl. two instances in "
            "one Environment and the heapq transcription against CPython's heapq.",
            "Full after 5 fix: commits (438d379, d1c8660, 69e89c0, 42d7aff, d0d3d61). Float rounding outside (85% of WFQ cases and all "
            "VC cases are exact by construction, the rest compare vtime/stamps within 1e-9 with order/timing exact). 'The scheduler "
            "empties' is read as: run() resumes after a transmission and finds nothing held. WFQ.run and VirtualClock.run are tied by translation (C14_gen_wfq_run_*, C14_gen_vc_run_*).",
            "DESIGN.md section 4 C14, section 8"),
    "C15": ("RR/WRR (Props/C15_RR.v, 6 theorems): the whole visit sequence conforms to the cyclic walk over the classes in declaration order "
            "with the per-visit allowance (1 resp. up to weight), a class is skipped only if it holds nothing, transmission starts follow "
            "the served visits. DRR (Props/C15_DRR.v, 6 theorems): quantum = 1500*w/min w; the visit rule as a refinement to a "
            "specification automaton (quantum added iff the class holds a packet, heads sent while covered and debited, unaffordable head "
            "parked, credit reset when the class empties); credit in [0, Q + Lmax) in every reachable state; the long-run fairness bound "
            "|S_i/Q_i - S_j/Q_j| < 4 + 3*Lmax*(1/Q_i + 1/Q_j) over any period in which both classes stay backlogged — proved in full. "
            "All weight tables, rates > 0, all admissible executions; 360 (quick) / 9000 (thorough) replayed executions per run.",
            "Full. DRR reading of 'the class's queue empties': class_count == 0 when run() resumes after a transmission. Sizes > 0. "
            "Repair: b2bc02b. RR.run, WRR.run (nested fixes over the rest of the tables) and DRR.run (one generated pass iterated with fuel; a simulation up to == on the deficits) are tied by translation.",
            "DESIGN.md section 4 C15, section 8"),
    "C06": ("15 theorems (C06_users_le_capacity, queue_sorted, rank_meaning, grant_is_head, no_overtaking, free_slot_has_release, "
            "no_idle_slot_at_advance, release_idempotent, release_twice, preempt_call, victim_is_worst_ranked, preempt_request, "
            "evictions_strict, only_preemptive_evicts, users_have_usage_since) hold for Resource/PriorityResource/PreemptiveResource of "
            "every capacity >= 1 and every admissible history of any length of the Gallina automaton coq/Res/Resource.v "
            "(request/release/cancel/with-exit/process-end operations by any number of processes, kernel event processing in any order, "
            "clock advances); the real classes are driven with 500 (quick) / 8000 (thorough) random histories whose observed execution "
            "is replayed in the model and compared after every action (users, queue, count, pending events, triggered requests, "
            "interrupts) and checked admissible.",
            "Full. Standalone automaton (not inside the kernel model). Hypotheses, checked on every observed history: a process holds "
            "or awaits at most one request; cancel/with-exit by the owner and not repeated; an ended process issues nothing. Monitor "
            "only (not in Coq): delivery of the Interruption into the victim's generator (C04) and the `resource` field of Preempted. "
            "That the kernel empties the instant before advancing is C01 and is checked as admissibility of every observed run. One "
            "defect repaired (ffa1b36: preempting a user whose process has ended raised and stranded the preemptor). BaseResource._trigger_put/_trigger_get (one generated iteration, fuel 1 + queue length proved sufficient), Put/Get.__init__, cancel, __exit__, Release, PriorityRequest and SortedQueue.append are tied by translation (C06_gen_trigger_put, ...).",
            "DESIGN.md section 4 C06, section 8"),
    "C07": ("30 theorems (C07_level_bounds, level_conservation, *store_bounded, delivered_exactly_once_*, triggered_at_most_once, "
            "store_fifo, prio_store_min, filter_store_first_match, puts_fcfs, gets_fcfs, filter_overtake_only_nonmatching, "
            "heads_blocked_at_advance + per-kind forms, heappop_min_and_multiset, heappush_multiset, heap_total, and the refutation of "
            "the unrepaired cancel) hold for every capacity, initial level, item/priority/filter and every admissible interleaving of "
            "put/get/cancel/event-processing/clock-advance of the model coq/Res/ContainerStore.v (heapq transcribed in Res/Heap.v); the "
            "model is compared with the real Container/Store/PriorityStore/FilterStore after every action on 3000 (quick) / 40000 "
            "(thorough) generated histories per run, each observed execution checked admissible.",
            "Full. Standalone automaton. Assumed: request events are triggered only by the resource; Container 0<=init<=capacity; "
            "capacity > 0 or infinite as the constructors enforce; integer priority keys; which of two equal-priority items leaves first is reproduced by the model (heap arrays compared) "
            "but is not a theorem. Trusted: the kernel does not advance the clock past a triggered unprocessed event (C01; checked per "
            "observed run). Defects repaired: e27f019 (cancel of a blocking head request did not rescan) and the fractional store "
            "capacity guard (see known_findings.json). The scan loops of the base class and FilterStore._do_get are tied by translation (C07_gen_trigger_put/_get, C07_gen_filter_do_get); compared runs include exact-typed amounts (ints above 2**53, Fractions).",
            "DESIGN.md section 4 C07, section 8"),
    "C09": ("23 theorems of Props/C09.v (departure recurrence incl. rate 0 and FIFO, tail-drop iff in byte and packet mode, occupancy bound, "
            "counters, exact byte occupancy, per-hop stamps, PortMonitor samples, never-late / work-conserving, RED EWMA recurrence and the "
            "three RED regions, six refutations of the code as found) hold for all rates, limits/modes, thresholds/weights and all "
            "admissible executions of the Gallina models Elem/Port.v + Elem/Red.v; the models are replayed action by action against the "
            "real Port/REDPort/PortMonitor on 400 (quick) / 10000 (thorough) generated executions per run plus corpus cases.",
            "Full after 5 fix: commits (a277047, fecbe41, 0d56be9, 8fdfee8, 56cf361). Not formalised: 'with probability p' (= refused iff "
            "uniform u <= p(avg)). Assumed: sizes >= 0 (occupancy/never-late), min<=max<=qlimit (RED below-min clause), self.out set. "
            "Scripted random.uniform / sampling distribution.",
            "DESIGN.md section 4 C09, section 8"),
    "C10": ("14 theorems (C10_wire_spec: the timed deliveries/losses of every admissible execution are exactly the property's recurrence "
            "over arrivals and draws; delivery_time, fifo, delivery_instants_sorted, no_loss_exactly_once, lost_never_delivered, "
            "lost_delays_nobody, loss_iff, never_late; cable_independent(_frame), cable_commute, cable_wiring, cable_outputs_go_across) "
            "hold for every loss configuration, every admissible execution (all interleavings of puts and kernel micro-steps inside an "
            "instant) and all draws of the Gallina models of Wire and Cable; the models are compared action by action with the real "
            "Wire/Cable on 400 (quick) / 12000 (thorough) generated executions per run.",
            "Full. 'With probability p' is read as: lost iff the uniform draw is < loss_rate. Admissibility of the real kernel's "
            "executions (urgent steps before the clock advances) is checked on every observed execution, and is C01's theorem for the kernel model. "
            "Wire.put and the generator Wire.run are translated from /repo on every run and proved equal to the model's steps. The theorems assume "
            "a loss rate fixed for the run; reconfiguration between packets is covered by the per-action correspondence and the monitor. Repair "
            "965d42d: the entry instant was kept only in packet.current_time, so the same Packet object put again while its earlier traversal "
            "was still queued (a TCP retransmission) was held too long; found by the 'same object, several traversals' cases.",
            "DESIGN.md section 4 C10, section 8"),
    "C13": ("For all rates > 0, all priority tables over distinct flows and all admissible executions of the Gallina model of the repaired SP "
            "(onl/scheduler/sp.py + base.py): whenever run() dequeues a packet of flow f every flow of larger priority holds nothing "
            "(C13_sp_strict); at the start of the transmission anything a higher flow holds arrived in that very instant after the "
            "dequeue (C13_sp_strict_at_start, C13_sp_commit_same_instant); transmissions are never aborted (C13_sp_non_preemptive); the "
            "pinned loop is refuted (C13_sp_strict_refuted_before_fix). The model is compared with the real SP on 300 (quick) / 9000 "
            "(thorough) executions per run, every observed kernel step checked admissible.",
            "Full, with this reading of 'waiting at that instant': the kernel orders occurrences inside an instant; the scheduler commits "
            "at the dequeue (store.get granted); a higher-priority packet put between that dequeue and the start of the transmission "
            "process in the same instant is not displaced (non-preemptive). Defect repaired: /repo 0e96376 (SP served one packet per "
            "class per pass). SP.run's scan (restart after every transmission, descending priority order from SP.__init__'s sort) is tied by translation against sp_find (C13_gen_sp_run_*).",
            "DESIGN.md section 4 C13, section 8"),
    "C16": ("26 theorems: the ACK is the contiguous received prefix and monotone for every arrival sequence (C16_ack_is_prefix, "
            "C16_ack_monotone, refutation of the pinned ACK choice); the repaired sender never raises for every Ack/Expire/StoreCb/Wake "
            "history; in every reachable state of the closed loop (sender, sink, two constant-delay wires, any finite drop sets per "
            "direction, Reno/CUBIC) nothing raises, last_ack <= sink prefix <= next_seq, last_ack is monotone, an unfinished transfer has "
            "an armed timer event or a runnable sender on the agenda, and a quiescent loop has delivered everything; a retransmission "
            "happens only at the segment's own timer expiry or at a third-or-later duplicate ACK; over a loss-free path with RTT below the "
            "RTO no segment is transmitted twice (C16_lossfree_no_retransmit); RELIABLE DELIVERY (Props/C16_Live.v, "
            "C16_reliable_delivery): for every flow of whole segments, every delay d >= 0, every initial RTT estimate > 0, any two finite "
            "drop lists, Reno or CUBIC with any cnt oracle, the loop never raises and ends with an empty agenda, last_ack = size and the "
            "sink holding exactly [0,size) within the explicit bound 3 + Gnew*size + Cexp*Bexp agenda steps (C16_live_bound_unfolded; the "
            "number of timer expiries of every run is bounded: C16_expiries_bounded; the RTO never falls below rtt0*(7/8)^size: "
            "C16_rto_lower_bound), unless env.run(until=t_max) stops it first; the TCPSink.put body translated from /repo on every run "
            "equals the model (C16_gen_sink_put). 1000 (quick) / 20000 (thorough) cases per run: sink sequences, whole closed-loop runs of "
            "the real sender/sink/wires compared event by event and instant by instant, sender-alone histories.",
            "Full over exact arithmetic (models use Q). Outside the theorems: binary64 rounding of instants and of the RTO estimator — "
            "runs whose floats are not short dyadics are monitored, not compared; proving the liveness theorem exposed one such run in "
            "which the real code stalled (zero-delay path, now + rto == now, the Timer never fired): repaired by 4170594, kept as corpus "
            "case. Per-packet varying delays are outside the model (Wire with a constant delay_dist). lossfree_no_retransmit needs rtt0 != "
            "2*delay (at equality the timer's Timeout, scheduled earlier, wins the same-instant race against the ACK: a real boundary). "
            "Trusted besides the common base: Timer per C19, kernel order per C01, CUBIC cnt oracle. Repairs: 4cddda4 (sink), 5f98ada, "
            "5f6e664, eae436e (sender), 4170594 (Timer).",
            "DESIGN.md section 4 C16, sections 8.3, 8.6"),
    "C17": ("38 theorems about the Gallina model of TCPPacketGenerator.put/timeout_callback/run and CongestionControl/TCPReno/TCPCubic: "
            "send guard and consecutive MSS numbering, window respected at every emission, only a wake-up sends new data, Reno/CUBIC ACK "
            "rules, early duplicates, fast retransmit (ssthresh = max(2 MSS, cwnd/2), cwnd = ssthresh + 3 MSS), further duplicates, "
            "deflate-then-count and no deflation before the third duplicate (the pinned behaviour refuted), timeout rule, RTO formula "
            "and doubling, cwnd >= MSS over all histories, error states unreachable — each as an equation between pre- and post-state "
            "including what does not change; plus 5 bridging lemmas for CongestionControl method bodies TRANSLATED from /repo on every run "
            "(second tie, fail closed). Every transition of 700 (quick) / 12000 (thorough) scripted histories on the real sender is "
            "replayed in the model.",
            "TCPCubic is modelled exactly over Q (Tcp/Cubic.v: C = 2/5, beta = 1/5, (t-K)^3 as an integer power; the cube-root branch is "
            "proved unreachable because W_last_max is only ever 0): C17_cubic_growth_rule, epoch_start_rule, slow_start_rule, "
            "cubic_new_ack_rule with the computed cnt; cnt is compared within a relative 1e-5 (max_cnt = cwnd/(W_tcp - cwnd) is "
            "ill-conditioned in binary64), W_tcp within 1e-9. The translated-body tie covers CongestionControl, TCPReno and the TCPCubic methods (C17_gen_cubic_*: `**3` as repeated "
            "multiplication, any other `**` fails closed) and, since round 3, TCPPacketGenerator.put (dupack bookkeeping, deflation, fast retransmit, "
            "RTT estimator) and timeout_callback (C17_gen_sender_put, C17_gen_sender_timeout). Float-valued fields are compared within a relative 1e-12 per "
            "transition from the observed pre-state; theorems are over Q. The translator (props/tcp_common.translate_cc) is part of the "
            "trusted base of this property; a harmless rewrite of a translated method makes the bridging obligations fail "
            "(reported no-failing-input-found). Repair: eae436e. Since round 6 the Flow's application process (arrival_dist, size_dist, start/finish times) is modelled as a layer around the sender step (Tcp/AppSender.v) with C17_app_send_guard, C17_app_window_respected, C17_app_buffer_respected, C17_app_partial_tail_waits and C17_app_plain_is_on_wake (without an application configured the layer IS on_wake, so the earlier theorems and C16's loop are about the same run()); TCPPacketGenerator.run, put, timeout_callback and resend_packet are tied by translation. Behaviour outside C17's text: less than one MSS of buffered data is never sent and stops the fetch loop for good.",
            "DESIGN.md section 4 C17, section 8"),
    "C18": ("22 theorems (Props/C18.v): FlowDemux/FIBDemux rules (empty table and no outputs included), exactly one output, switches route "
            "by these rules; a hub repeats to all attached endpoints but the sender exactly once, through the port device when given; a "
            "splitter hands out the original and pairwise distinct header-equal copies with independent header fields; for EVERY even "
            "k >= 2 the fat-tree model has (k/2)^2 core, k^2/2 aggregation, k^2/2 edge switches, k^3/4 hosts, k/2 per edge switch, all "
            "switches of degree k, and hostdist (2/4/6) is the graph distance between hosts; for ANY graph the tables of generate_fib "
            "follow every simple path (ACK class back along the reverse) and a network of FIB switches delivers every packet to its own "
            "flow's sink only (instantiated on fattree k). Five theorems refute the code as found. Models compared with the real classes "
            "on 640 (quick) / 6000 (thorough) cases per run incl. FatTree(k) k <= 8 (12 thorough) neighbour list by neighbour list and "
            "end-to-end simulations (incl. real WFQ/DRR/VirtualClock in FairPacketSwitch).",
            "PARTIAL in one clause: that networkx.all_shortest_paths yields shortest paths is checked per run (each generated path is "
            "validated in Coq by path_ok; C18_path_ok_shortest_partial says an accepted path is a shortest simple walk of the model), "
            "not proved about networkx. The hub is a state machine over attach / send / rename actions (C18_hub_repeats_dynamic: every send "
            "sees exactly the population attached so far); demuxes, switches and splitters are reconfigured between packets in the "
            "compared runs. Repairs: e4841d3, 2ad9c6f, 6208ccc, a442c71, 3ac02a4.",
            "DESIGN.md section 4 C18, section 8"),
    "C19": ("For every admissible history of stop()/restart(tau) calls by foreign processes and by the timer's own callback, at any instants "
            "incl. the expiry instant and several per instant, one-shot and auto-restart, all positive timeouts: fires exactly at expiry / "
            "every timeout (C19_fires_at_expiry, C19_auto_restart_period), stop is final, restart re-bases to r+tau from outside and from "
            "the callback, firing instants strictly increase with exact args (no_double_fire, fires_only_at_expire_time), no error state "
            "is reachable (timer_never_raises) via the invariant 'one live uninterrupted timer process waiting until exactly "
            "expire_time'; three theorems show the pre-fix code raised. The model is compared action by action with the real Timer on "
            "~550 (quick) / ~10500 (thorough) stepped executions per run.",
            "Full. Assumed as admissibility of the automaton (and checked on every observed execution): kernel facts K1 (URGENT before "
            "NORMAL, due events before the clock moves: C01) and K2 (Initialize before Interruption: C04). Outside: float rounding "
            "(dyadic inputs; extra float-mode cases go through the monitor only), callbacks that raise, restart(tau<=0). restart() of an "
            "already-fired one-shot does not re-arm (unspecified by C19; proved as C19_expired_one_shot_never_refires). Timer.stop / "
            "Timer.restart (with the helper _arm inlined) are translated from /repo on every run and proved equal to the model's "
            "do_stop / do_restart (C19_gen_timer_stop, C19_gen_timer_restart; _arm's float-rounding substitution is proved dead in "
            "exact arithmetic). Repairs: f3ce555, 4f3b0bd, ca556aa, 4170594. Timer.__init__ (argument normalisation: None / list or tuple / anything else is ONE argument, incl. str and bytes: C19_args_normalised, Elem/TimerArgs.v) and the generator Timer.run are tied by translation as well; compared runs use arguments of every shape.",
            "DESIGN.md section 4 C19, section 8"),
    "C20": ("C20_same_events (for every kernel state type and step function the real-time run performs exactly the plain run's steps), "
            "C20_never_early, C20_sleeps_exact, C20_strict_iff, C20_nonstrict_never_raises, C20_proceeds_when_reached: proved for ALL "
            "wall-clock reading sequences (sleeps early/late, arbitrary processing time). Tie: RealtimeEnvironment.step is run with a "
            "scripted monotonic/sleep on random programs; every step's (peek, readings consumed, sleeps requested, outcome) is replayed in "
            "the model, and the program's trace is compared with the plain Environment's.",
            "The kernel is abstract in the model (pacing only uses peek() and then calls Environment.step); 'same events' on the real "
            "kernel is checked by running each program on both environments. Real sleeping is not exercised and not claimed.",
            "DESIGN.md section 4 C20, section 8"),
}

NOT_APPLICABLE = []



def counted(pid):
    """statements of coq/Props/<pid>*.v as they are on disk: (all, non-vacuity witnesses, bridge theorems about translated bodies, files)"""
    import glob
    import re
    files = sorted(glob.glob(os.path.join(VERIF, "coq", "Props", pid + "*.v")))
    allt = wit = br = 0
    for f in files:
        names = re.findall(r"^(?:Theorem|Lemma|Corollary)\s+([A-Za-z0-9_']+)", open(f).read(), re.M)
        allt += len(names)
        wit += sum(1 for n in names if "_ex_" in n)
        br += sum(1 for n in names if "_gen_" in n and "_ex_" not in n)
    return allt, wit, br, [os.path.basename(f) for f in files]


def suffix(pid):
    a, w, b, files = counted(pid)
    return (f" AS OF THIS MANIFEST the property has {a} proof obligations in {len(files)} statement files (coq/Props/{pid}*.v), each closed under "
            f"the global context: {a - w - b} property/refutation theorems, {b} bridge theorems (Cnn_gen_*: a leaf method or generator body "
            f"translated from /repo's current source on every run equals the hand-written model step, for all inputs; DESIGN 8.4, 8.9) and {w} "
            f"non-vacuity witnesses (Cnn_ex_*: all hypotheses of the theorems instantiated at one concrete non-trivial execution).")


def main():
    checks = []
    for pid in sorted(CHECKS):
        text, note, ref = CHECKS[pid]
        checks.append({
            "property_id": pid,
            "quick_cmd": f"./check {pid} --tier quick",
            "thorough_cmd": f"./check {pid} --tier thorough",
            "evidence_file": f"/verif/evidence/{pid}.json",
            "replay_cmd_template": f"./check {pid} --replay {{path}}",
            "engine": "coq-proof+correspondence",
            "technique": TECH,
            "level_claimed": {"category": "proof", "text": text + suffix(pid), "design_ref": ref},
            "level_note": note + " " + COMMON_NOTE,
        })
    listed = set(CHECKS)
    m = {
        "version": 1,
        "setup_cmd": "./setup.sh",
        "hooks": {
            "guard": "ONL_EDU_VERIF",
            "enable": "no source hooks are needed: the harness imports the classes from /repo's working tree (PYTHONPATH=/repo) and "
                      "instruments them from outside (taps, scripted random/clock, env.step() driving); ./check exports ONL_EDU_VERIF=1 "
                      "for uniformity",
            "baseline_off_cmd": "cd /repo && /venv/bin/python -m pytest -ra -q -p no:cacheprovider --timeout=900 --continue-on-collection-errors",
            "source_commits": [],
            "add_only": True,
        },
        "engines": [{
            "name": "coq-proof+correspondence", "path": "/verif/check", "serves_properties": sorted(listed),
            "kind_free_text": "Coq 8.16.1 theorems about hand-written Gallina models (coq/), tied to /repo on every run by a correspondence "
                              "check that evaluates the model inside Coq (vm_compute) on the inputs/executions the real code was run on; "
                              "Python monitors (the property as an oracle on the real code) search for a concrete failing input when an "
                              "obligation or the correspondence breaks"}],
        "checks": checks,
        "not_applicable": NOT_APPLICABLE,
        "notes": "Genuine defects repaired by fix: commits in /repo and remaining known findings are listed in /verif/known_findings.json. "
                 "All 20 properties are claimed; DESIGN.md section 8 (8.9 for the last round) describes the state as built.",
    }
    with open(os.path.join(VERIF, "MANIFEST.json"), "w") as fh:
        json.dump(m, fh, indent=1)
    print("MANIFEST.json:", len(checks), "checks")


if __name__ == "__main__":
    main()
