#!/venv/bin/python
"""Confirm and evaluate a seeded change.

  tools/seeded.py confirm <dir>            dir holds patch.diff, demo.py, meta.json
      -> applies the patch in a scratch worktree of /repo HEAD, runs the pinned suite (must pass),
         runs demo.py with and without the change (must exit 1 / 0); prints a JSON verdict.
  tools/seeded.py check <dir> [CNN ...]    runs ./check CNN (default: meta.json's property) against the
         patched scratch worktree via VERIF_REPO and reports whether a VIOLATION line appeared.
Scratch worktrees live under /tmp and are removed afterwards.
"""
import json
import os
import subprocess
import sys
import tempfile

VERIF = os.path.dirname(os.path.dirname(os.path.abspath(__file__)))


def sh(cmd, cwd=None, env=None, timeout=1800):
    p = subprocess.run(cmd, cwd=cwd, env=env, stdout=subprocess.PIPE, stderr=subprocess.STDOUT, text=True, timeout=timeout)
    return p.returncode, p.stdout


def worktree():
    d = tempfile.mkdtemp(prefix="seedwt-", dir="/tmp")
    os.rmdir(d)
    rc, out = sh(["git", "-C", "/repo", "worktree", "add", "-q", "--detach", d, "HEAD"])
    assert rc == 0, out
    return d


def drop(d):
    sh(["git", "-C", "/repo", "worktree", "remove", "--force", d])


def env_for(repo):
    e = dict(os.environ)
    e["PYTHONPATH"] = repo
    e["PYTHONDONTWRITEBYTECODE"] = "1"
    e["PYTHONHASHSEED"] = "0"
    return e


def confirm(d):
    d = os.path.abspath(d)
    res = {"dir": d}
    wt = worktree()
    try:
        rc, out = sh(["/venv/bin/python", os.path.join(d, "demo.py")], cwd=wt, env=env_for(wt), timeout=600)
        res["demo_exit_unchanged"] = rc
        rc, out = sh(["git", "-C", wt, "apply", os.path.join(d, "patch.diff")])
        res["patch_applies"] = rc == 0
        if rc != 0:
            res["apply_error"] = out[-500:]
            return res
        rc, out = sh(["/venv/bin/python", "-m", "pytest", "-q", "-p", "no:cacheprovider", "-x"], cwd=wt, env=env_for(wt), timeout=900)
        if rc != 0:   # tests/test_rt.py measures wall-clock time and flakes when the machine is loaded: one more attempt
            res["suite_first_attempt"] = out.strip().splitlines()[-1] if out.strip() else ""
            rc, out = sh(["/venv/bin/python", "-m", "pytest", "-q", "-p", "no:cacheprovider"], cwd=wt, env=env_for(wt), timeout=900)
        res["suite_rc"] = rc
        res["suite_tail"] = out.strip().splitlines()[-1] if out.strip() else ""
        rc, out = sh(["/venv/bin/python", os.path.join(d, "demo.py")], cwd=wt, env=env_for(wt), timeout=600)
        res["demo_exit_changed"] = rc
        res["demo_tail"] = out[-400:]
        res["confirmed"] = (res["demo_exit_unchanged"] == 0 and res["suite_rc"] == 0 and res["demo_exit_changed"] == 1)
    finally:
        drop(wt)
    return res


def check(d, props):
    d = os.path.abspath(d)
    meta = json.load(open(os.path.join(d, "meta.json")))
    props = props or [meta["property"]]
    wt = worktree()
    out_all = {}
    try:
        rc, out = sh(["git", "-C", wt, "apply", os.path.join(d, "patch.diff")])
        assert rc == 0, out
        for p in props:
            e = dict(os.environ)
            e["VERIF_REPO"] = wt
            rc, out = sh([os.path.join(VERIF, "check"), p, "--tier", "quick"], cwd=VERIF, env=e, timeout=3000)
            lines = [l for l in out.splitlines() if l.startswith("VIOLATION") or l.startswith("KNOWN-FINDING")]
            summ = [l for l in out.splitlines() if l.startswith(p + " tier=")]
            out_all[p] = {"rc": rc, "caught": any(l.startswith("VIOLATION") for l in lines), "lines": lines[:6],
                          "summary": summ[:1], "detail": [l for l in out.splitlines() if l.startswith("  ")][:6]}
    finally:
        drop(wt)
    return out_all


def keep(d, name, props, note=""):
    """confirm, run the checks, and store under /verif/seeded/<property>/<name>/"""
    import shutil
    meta = json.load(open(os.path.join(d, "meta.json")))
    c = confirm(d)
    if not c.get("confirmed"):
        print("NOT CONFIRMED", json.dumps(c, indent=1))
        return 2
    r = check(d, props)
    dest = os.path.join(VERIF, "seeded", meta["property"], name)
    os.makedirs(dest, exist_ok=True)
    if os.path.abspath(d) != os.path.abspath(dest):      # re-keeping an already kept change: files are in place
        shutil.copy(os.path.join(d, "patch.diff"), dest)
        shutil.copy(os.path.join(d, "demo.py"), dest)
    head = sh(["git", "-C", "/repo", "rev-parse", "--short", "HEAD"])[1].strip()
    meta.update({"breaks_property": meta["property"], "origin": "independent sub-agent given only the property text and a scratch worktree",
                 "confirmed_by_me": {"repo_head": head, "suite": c["suite_tail"], "demo_exit_unchanged": c["demo_exit_unchanged"],
                                     "demo_exit_changed": c["demo_exit_changed"],
                                     "how": "tools/seeded.py confirm: scratch worktree of /repo HEAD, git apply patch.diff, full pytest suite, demo.py with and without the change"},
                 "checks_run": {p: {"caught": v["caught"], "violation_lines": v["lines"], "summary": v["summary"], "detail": v["detail"]}
                                for p, v in r.items()},
                 "note": note})
    json.dump(meta, open(os.path.join(dest, "meta.json"), "w"), indent=1)
    print(meta["property"], name, {p: v["caught"] for p, v in r.items()})
    return 0


if __name__ == "__main__":
    cmd, d = sys.argv[1], sys.argv[2]
    if cmd == "confirm":
        print(json.dumps(confirm(d), indent=1))
    elif cmd == "keep":
        note = ""
        rest = sys.argv[4:]
        if "--note" in rest:
            i = rest.index("--note")
            note = rest[i + 1]
            rest = rest[:i]
        sys.exit(keep(os.path.abspath(d), sys.argv[3], rest, note))
    else:
        print(json.dumps(check(d, sys.argv[3:]), indent=1))
