#!/usr/bin/env python3
"""Writes seeded/INDEX.md: every kept seeded change, what it needs to manifest, which check component caught it."""
import glob
import json
import os

VERIF = os.path.dirname(os.path.dirname(os.path.abspath(__file__)))
rows = []
for m in sorted(glob.glob(os.path.join(VERIF, "seeded", "*", "*", "meta.json"))):
    d = json.load(open(m))
    prop = d.get("breaks_property", d.get("property"))
    name = os.path.basename(os.path.dirname(m))
    caught = []
    for p, v in d.get("checks_run", {}).items():
        sigs = sorted({x.strip().split(":")[0] for x in v.get("detail", []) if x.strip()})
        how = "monitor " + "/".join(sigs[:3]) if sigs and "no-failing-input-found" not in sigs else "correspondence or obligation only (no-failing-input-found)"
        summ = (v.get("summary") or [""])[0]
        corr = [w for w in summ.split() if w.startswith("correspondence=") or w.startswith("obligations=")]
        caught.append(f"{p}: {'CAUGHT' if v.get('caught') else 'MISSED'} — {how}; {' '.join(corr)}")
    rows.append((prop, name, d.get("summary", "").replace("\n", " ")[:260], d.get("needs_to_manifest", "") if isinstance(d.get("needs_to_manifest"), str) else json.dumps(d.get("needs_to_manifest"))[:260],
                 "; ".join(caught), d.get("note", "")))
with open(os.path.join(VERIF, "seeded", "INDEX.md"), "w") as fh:
    fh.write("# Seeded changes (independent sub-agents, property text + scratch worktree only)\n\n"
             "Each directory holds patch.diff, demo.py (exit 0 unchanged / 1 changed) and meta.json (confirmation by "
             "`tools/seeded.py keep`: patch applies to /repo HEAD, the pinned suite still passes, demo flips, then the registered "
             "check(s) run against the patched scratch worktree via VERIF_REPO).\n\n")
    fh.write(f"{len(rows)} changes; {sum(1 for r in rows if 'MISSED' in r[4])} currently missed; "
             f"{sum(1 for r in rows if 'MISSED at first' in r[5] or 'MISSED by the first' in r[5] or 'missed by the first' in r[5])} were missed at first and led to a strengthened check (see notes).\n\n")
    for r in rows:
        fh.write(f"## {r[0]} / {r[1]}\n- change: {r[2]}\n- needs: {str(r[3])[:300]}\n- result: {r[4]}\n" + (f"- note: {r[5]}\n" if r[5] else "") + "\n")
print(len(rows), "rows")
