#!/bin/bash
# Re-runs every kept seeded change (seeded/<id>/<name>/patch.diff) through its property's quick check in a scratch
# worktree (tools/seeded.py check) and reports which are still caught.  Usage: tools/seeded_regress.sh [ID ...]
#   PAR=<n> parallel jobs (default 3).  Output: .work/seeded_regress.<pid>.tsv  (<id> <name> caught|MISSED|ERROR)
cd "$(dirname "$0")/.." || exit 2
PAR=${PAR:-3}
ids="$*"
[ -z "$ids" ] && ids=$(ls seeded | grep '^C[0-9][0-9]$')
mkdir -p .work
out=.work/seeded_regress.$$.tsv     # one file per invocation (several may run at once)
: > "$out"
one() {
  d=$1
  id=$(basename "$(dirname "$d")"); name=$(basename "$d")
  if ! git -C /repo apply --check "$PWD/$d/patch.diff" 2>/dev/null; then echo -e "$id\t$name\tNOAPPLY"; return; fi
  r=$(timeout 3300 tools/seeded.py check "$d" 2>&1)
  if echo "$r" | grep -q '"caught": true'; then echo -e "$id\t$name\tcaught"
  elif echo "$r" | grep -q '"caught": false'; then echo -e "$id\t$name\tMISSED"
  else echo -e "$id\t$name\tERROR"; fi
}
export -f one
for id in $ids; do ls -d seeded/$id/*/ 2>/dev/null; done | sed 's:/$::' | xargs -P "$PAR" -I{} bash -c 'one {}' | tee "$out"
echo "caught: $(grep -c 'caught$' "$out")  missed: $(grep -c 'MISSED$' "$out")  other: $(grep -cv 'caught$\|MISSED$' "$out")"
