#!/bin/bash
# runs every registered check (quick tier by default) a few at a time and prints one summary line each
cd "$(dirname "$0")/.."
TIER="${1:-quick}"
IDS="${2:-$(python3 -c "import json;print(' '.join(c['property_id'] for c in json.load(open('MANIFEST.json'))['checks']))")}"
mkdir -p .work/runall
echo $IDS | tr ' ' '\n' | xargs -P ${PAR:-4} -I{} bash -c "./check {} --tier $TIER > .work/runall/{}.log 2>&1; echo {} rc=\$? \$(grep -E '^{} tier=' .work/runall/{}.log | tail -1) \$(grep -c '^VIOLATION' .work/runall/{}.log) violations \$(grep -c '^KNOWN-FINDING' .work/runall/{}.log) known"
